import sys, time
sys.path.insert(0, '/verif')
import contracts, z3
from pyvc.spec import REGISTRY
from pyvc.verify import verify_function
from pyvc.sym import INTERN, V
k=[kk for kk in REGISTRY if sys.argv[1] in kk][0]
r = verify_function(REGISTRY[k], REGISTRY)
for o in r.obligations:
    if sys.argv[2] in o.name:
        m=o.model; st=o.st; e=st.old
        print(o.result, o.backend)
        c=st.ghost['calls']; rr=V.r(c.z)
        ev=lambda t: m.eval(t, model_completion=True)
        n0=ev(e.hread('$llen', rr)); n1=ev(st.hread('$llen', rr))
        print('old len', n0, 'new len', n1)
        for i in range(int(str(n0)), int(str(n1))):
            print(i, ev(z3.Select(st.hread('$litems', rr), i)))
        for ev_ in st.events: print(ev_['callee'], ev_['outcome'][0])
        break
import re
for d in m.decls():
    if re.match(r'(hl|gl|alloc)!', d.name()): print(d.name(), m[d])
print(ev(st.heap['$llen']))
