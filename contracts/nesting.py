"""C04 -- the nesting discipline at the places that create end tokens and shrink / rewind the block stack."""
from pyvc.spec import Assumed, Contract, Loop, Raises, register
from pyvc.spec import REGISTRY as _R

MT = "pymarkdown/tokens/markdown_token.py::MarkdownToken."
EMT = "pymarkdown/tokens/markdown_token.py::EndMarkdownToken."
ST = "pymarkdown/tokens/stack_token.py::StackToken."
TM = "pymarkdown/general/tokenized_markdown.py::TokenizedMarkdown."
EH = "pymarkdown/inline/emphasis_helper.py::EmphasisHelper."
LRD = "pymarkdown/links/link_reference_definition_helper.py::LinkReferenceDefinitionHelper."
P = ["C04"]

_R["$fields"].types.update({
    "MarkdownToken._MarkdownToken__requires_end_token": "bool", "MarkdownToken._MarkdownToken__can_force_close": "bool",
    "MarkdownToken._MarkdownToken__token_name": "str", "MarkdownToken._MarkdownToken__is_special": "bool",
    "StackToken._StackToken__type_name": "str", "StackToken._StackToken__matching_markdown_token": "Optional[MarkdownToken]",
    "ParserState._ParserState__token_stack": "List[StackToken]", "ParserState._ParserState__token_document": "List[MarkdownToken]",
})

MT_INIT = MT + "__init__"
COMPOSE = Assumed(EMT + "__compose_data_field", pure=True, modifies=["self._MarkdownToken__extra_data"],
                  why="serialises the end token's fields into its extra_data string (presentation only)")

# An end token records the start token it closes; it can only be built for a start token that wants one, and a forced
# close only for a token that may be force-closed.
register(Contract(
    key=EMT + "__init__", properties=P,
    calls={"self.__compose_data_field": COMPOSE},
    requires=["self is not start_markdown_token"],   # a constructor's self is a new object
    ensures=["self.start_markdown_token is start_markdown_token", "self.type_name is type_name", "self.was_forced == was_forced",
             "start_markdown_token.requires_end_token", "implies(was_forced, start_markdown_token.can_force_close)",
             "self.line_number == line_number and self.column_number == column_number"],
    raises=[Raises("AssertionError", when="not start_markdown_token.requires_end_token or (was_forced and not start_markdown_token.can_force_close)")],
    types={"start_markdown_token": "MarkdownToken"},
    modifies=["self.__type_name", "self.__extracted_whitespace", "self.__extra_end_data", "self.__start_markdown_token", "self.__was_forced",
              "self._MarkdownToken__token_name", "self._MarkdownToken__token_class", "self._MarkdownToken__extra_data", "self._MarkdownToken__line_number", "self._MarkdownToken__column_number",
              "self._MarkdownToken__is_extension", "self._MarkdownToken__requires_end_token", "self._MarkdownToken__can_force_close", "self._MarkdownToken__is_special"],
))

# the end token generated from a stack entry closes exactly the markdown token that entry was opened for
register(Contract(
    key=ST + "generate_close_markdown_token_from_stack_token", properties=P,
    ensures=["is_fresh(result)", "result.start_markdown_token is self.matching_markdown_token", "result.type_name is self.type_name",
             "result.was_forced == was_forced", "self.matching_markdown_token is not None",
             "self.matching_markdown_token.requires_end_token"],
    raises=[Raises("AssertionError")],
    modifies=[],
))

register(Contract(
    key=MT + "generate_close_markdown_token_from_markdown_token", properties=P,
    ensures=["is_fresh(result)", "result.start_markdown_token is self", "result.type_name is self.token_name", "not result.was_forced",
             "result.line_number == line_number and result.column_number == column_number", "self.requires_end_token"],
    raises=[Raises("AssertionError", when="not self.requires_end_token")],
    modifies=[],
))

# Closing the innermost open block: the emitted end token refers to the markdown token of the TOP stack entry, exactly that
# entry is removed and everything below it stays where it was.
STACK = "parser_state.token_stack"
BACK = Assumed("pymarkdown/leaf_blocks/leaf_block_helper.py::LeafBlockHelper.extract_markdown_tokens_back_to_blank_line",
               params=["parser_state", "was_forced"], returns="List[MarkdownToken]", fresh_result=True, modifies=["parser_state.token_document.$list"],
               why="moves trailing blank-line tokens of an indented code block behind its end token; touches token_document only")
register(Contract(
    key=TM + "__remove_top_element_from_stack", properties=P,
    requires=[f"len({STACK}) >= 1", f"has_type(parser_state.token_document, 'List[MarkdownToken]')"],
    calls={"LeafBlockHelper.extract_markdown_tokens_back_to_blank_line": BACK,
           "parser_state.token_stack[-1].generate_close_markdown_token_from_stack_token": ST + "generate_close_markdown_token_from_stack_token"},
    ensures=[f"len({STACK}) == old(len({STACK})) - 1",
             f"forall(lambda k: {STACK}[k] is old({STACK}[k]), 0, len({STACK}))",
             "len(result) >= 1",
             f"result[0].start_markdown_token is old({STACK}[len({STACK}) - 1]).matching_markdown_token",
             f"result[0].type_name is old({STACK}[len({STACK}) - 1]).type_name",
             "result[0].was_forced == was_forced"],
    types={"result[0]": "EndMarkdownToken"},
    raises=[Raises("AssertionError")],
    modifies=[f"{STACK}.$list", "parser_state.token_document.$list"],
))

# ---------------------------------------------------------------------------------------------------------------
# Rewinding a failed link reference definition: the block stack afterwards is EXACTLY what it was when the definition
# began -- either the surviving prefix (nothing below the original depth was touched) or, if the line had already closed
# blocks, the snapshot taken at the start, entry for entry.  The document is cut back to its original depth.
DOC = "parser_state.token_document"
COPY = "lrd_stack_token.copy_of_token_stack"
_R["$fields"].types.update({"LinkDefinitionStackToken.copy_of_token_stack": "Optional[List[StackToken]]"})
DOC_KEPT1, DOC_KEPT2 = f"len({DOC}) == old(len({DOC}))", f"forall(lambda k: {DOC}[k] is old({DOC}[k]), 0, len({DOC}))"
COPY_KEPT = f"implies({COPY} is not None, len({COPY}) == old(len({COPY})) and forall(lambda k: {COPY}[k] is old({COPY}[k]), 0, len({COPY})))"
register(Contract(
    key=LRD + "__prepare_for_requeue_reset_document_and_stack", properties=P,
    requires=["original_stack_depth >= 0", "original_document_depth >= 0", f"has_type({DOC}, 'List[MarkdownToken]')",
              f"has_type({COPY}, 'Optional[List[StackToken]]')", f"{COPY} is not {STACK}"],
    ensures=[
        f"implies(old(len({STACK})) >= original_stack_depth, len({STACK}) == original_stack_depth and "
        f"forall(lambda k: {STACK}[k] is old({STACK}[k]), 0, original_stack_depth))",
        f"implies(old(len({STACK})) < original_stack_depth, len({STACK}) == len({COPY}) and "
        f"forall(lambda k: {STACK}[k] is {COPY}[k], 0, len({COPY})))",
        f"len({DOC}) == min(old(len({DOC})), original_document_depth)",
        f"forall(lambda k: {DOC}[k] is old({DOC}[k]), 0, len({DOC}))",
    ],
    raises=[Raises("AssertionError", when=f"len({STACK}) < original_stack_depth and {COPY} is None")],
    modifies=[f"{STACK}.$list", f"{DOC}.$list"],
    loops={
        0: Loop(invariant=[f"original_stack_depth <= len({STACK}) <= old(len({STACK}))",
                           f"forall(lambda k: {STACK}[k] is old({STACK}[k]), 0, len({STACK}))", DOC_KEPT1, DOC_KEPT2], variant=f"len({STACK})"),
        1: Loop(invariant=[f"0 <= len({STACK}) <= old(len({STACK}))", DOC_KEPT1, DOC_KEPT2, COPY_KEPT], variant=f"len({STACK})"),
        2: Loop(invariant=[f"len({DOC}) <= old(len({DOC}))", f"len({DOC}) >= min(old(len({DOC})), original_document_depth)",
                           f"forall(lambda k: {DOC}[k] is old({DOC}[k]), 0, len({DOC}))"], variant=f"len({DOC})"),
    },
))

# ---------------------------------------------------------------------------------------------------------------
# Inline nesting: once an opening and a closing delimiter run have been paired (emphasis token E inserted right after the
# opener, its end token right before the closer), NO delimiter strictly between E and its end token stays active -- so a
# later pair can never start inside this one and end outside it (emphasis pairs never cross).
B = "inline_blocks"
ACTIVE = "_SpecialTextMarkdownToken__is_active"
RO = "(1 if old(open_token.repeat_count) == emphasis_length else 0)"     # opener run used up and removed from the list
RC = "(1 if old(close_token.repeat_count) == emphasis_length else 0)"
_R["$fields"].types.update({"SpecialTextMarkdownToken._SpecialTextMarkdownToken__is_active": "bool",
                            "SpecialTextMarkdownToken._SpecialTextMarkdownToken__repeat_count": "int"})
register(Contract(
    key=EH + "__mark_used_tokens", properties=P,
    requires=[
        # the shape __process_emphasis_pair establishes: [.., open, E, <inner>, end-E, close, ..], each run listed once
        f"0 <= start_index_in_blocks and start_index_in_blocks + 3 <= end_index_in_blocks < len({B})",
        f"{B}[start_index_in_blocks] is open_token and {B}[end_index_in_blocks] is close_token and open_token is not close_token",
        f"forall(lambda k: implies({B}[k] is open_token, k == start_index_in_blocks), 0, len({B}))",
        f"forall(lambda k: implies({B}[k] is close_token, k == end_index_in_blocks), 0, len({B}))",
        "emphasis_length >= 1 and open_token.repeat_count >= emphasis_length and close_token.repeat_count >= emphasis_length",
    ],
    ensures=[
        f"len({B}) == old(len({B})) - {RO} - {RC}",
        f"{B}[start_index_in_blocks + 1 - {RO}] is old({B}[start_index_in_blocks + 1])",            # E
        f"{B}[end_index_in_blocks - 1 - {RO}] is old({B}[end_index_in_blocks - 1])",                # end-E
        f"forall(lambda k: {B}[k - {RO}] is old({B}[k]), start_index_in_blocks + 1, end_index_in_blocks)",   # inner tokens kept, in order
        f"forall(lambda k: implies({B}[k].is_special_text, not {B}[k].{ACTIVE}), "
        f"start_index_in_blocks + 2 - {RO}, end_index_in_blocks - 1 - {RO})",
        f"result == current_position - (0 if {RC} == 1 else 1)",
    ],
    modifies=[f"{B}.$list", ACTIVE, "_SpecialTextMarkdownToken__repeat_count", "_MarkdownToken__column_number"],
    loops={0: Loop(invariant=[
        "start_index_in_blocks + 1 <= inline_index",
        f"forall(lambda k: implies({B}[k].is_special_text, not {B}[k].{ACTIVE}), start_index_in_blocks + 1, inline_index)",
    ], variant="end_index_in_blocks - inline_index")},
))


# ---------------------------------------------------------------------------------------------------------------
# Token classes: what a token may contain is decided by its class, and the class is fixed by the base class a token derives
# from -- a container token is of class CONTAINER and always wants an end token; leaf and inline tokens carry their class.
MT_FIELDS = ["self._MarkdownToken__token_name", "self._MarkdownToken__token_class", "self._MarkdownToken__extra_data",
             "self._MarkdownToken__line_number", "self._MarkdownToken__column_number", "self._MarkdownToken__is_extension",
             "self._MarkdownToken__requires_end_token", "self._MarkdownToken__can_force_close", "self._MarkdownToken__is_special"]
POS = ["implies(position_marker is not None, self.line_number == position_marker.line_number and "
       "self.column_number == position_marker.index_number + position_marker.index_indent + 1)",
       "implies(position_marker is None, self.line_number == line_number and self.column_number == column_number)"]
register(Contract(
    key="pymarkdown/tokens/container_markdown_token.py::ContainerMarkdownToken.__init__", properties=P + ["C05"],
    ensures=["self.is_container and not self.is_leaf", "self.requires_end_token", "self.token_name is token_name"] + POS,
    modifies=MT_FIELDS))
register(Contract(
    key="pymarkdown/tokens/leaf_markdown_token.py::LeafMarkdownToken.__init__", properties=P + ["C05"],
    ensures=["self.is_leaf and not self.is_container", "self.requires_end_token == requires_end_token", "self.token_name is token_name"] + POS,
    modifies=MT_FIELDS + ["self.__extracted_whitespace"]))
register(Contract(
    key="pymarkdown/tokens/inline_markdown_token.py::InlineMarkdownToken.__init__", properties=P + ["C05"],
    ensures=["not self.is_leaf and not self.is_container", "self.requires_end_token == requires_end_token", "self.token_name is token_name"] + POS,
    modifies=MT_FIELDS))
