"""C05 (arithmetic / scanning primitives) -- also used by C11: the string scanners every column is built from."""
import z3

from pyvc.spec import Assumed, Contract, Loop, Raises, register, spec_fn
from pyvc.sym import V, fresh, sat, slen, vbool

PH = "pymarkdown/general/parser_helper.py::ParserHelper."
P = ["C05", "C11"]


@spec_fn("is_ws")
def is_ws(ex, st, args):
    """is_ws(s, k): character k of s is a space or a tab (ParserHelper.__normal_whitespace)"""
    s, k = args
    c = sat(V.s(s.z), V.i(k.z))
    return vbool(z3.Or(c == 32, c == 9))


register(Contract(key=PH + "is_character_at_index_whitespace", properties=P, pure=True,
                  ensures=["result == (0 <= index_in_string and index_in_string < len(source_string) and is_ws(source_string, index_in_string))"]))
register(Contract(key=PH + "is_character_at_index_not_whitespace", properties=P, pure=True,
                  ensures=["result == (0 <= index_in_string and index_in_string < len(source_string) and not is_ws(source_string, index_in_string))"]))
register(Contract(key=PH + "is_character_at_index", properties=["C05"], pure=True,
                  ensures=["implies(len(valid_character) == 1, result == (0 <= index_in_string and index_in_string < len(source_string) "
                           "and char_at(source_string, index_in_string) == char_at(valid_character, 0)))"]))


@spec_fn("char_at")
def char_at(ex, st, args):
    from pyvc.sym import vint
    s, k = args
    return vint(sat(V.s(s.z), V.i(k.z)))


def scanner(name, pred, negate=False):
    """scanners of the form: from start_index, advance while P(s[i]); returns (index, s[start:index]) or (None, None)"""
    p = ("not " if negate else "") + "is_ws(source_string, k)"
    stop = ("" if negate else "not ") + "is_ws(source_string, result[0])"
    register(Contract(
        key=PH + name, properties=P, pure=True,
        ensures=[
            "(result[0] is None) == (not (0 <= start_index and start_index <= len(source_string)))",
            "(result[1] is None) == (result[0] is None)",
            # the returned index is within the string, everything skipped satisfies the predicate, the character at the index does not
            "implies(result[0] is not None, start_index <= result[0] and result[0] <= len(source_string))",
            f"implies(result[0] is not None, forall(lambda k: {p}, start_index, result[0]))",
            f"implies(result[0] is not None and result[0] < len(source_string), {stop})",
            # the extracted text is exactly the skipped characters
            "implies(result[0] is not None, len(result[1]) == result[0] - start_index)",
            "implies(result[0] is not None, forall(lambda k: char_at(result[1], k - start_index) == char_at(source_string, k), start_index, result[0]))",
        ],
        loops={0: Loop(invariant=["start_index <= index and index <= len(source_string)", f"forall(lambda k: {p}, start_index, index)"],
                       variant="len(source_string) - index")},
    ))
    # the _verified twin: the asserts become facts (index in range) for callers with 0 <= start <= len
    register(Contract(
        key=PH + name + "_verified", properties=P, pure=True,
        requires=["0 <= start_index and start_index <= len(source_string)"],
        ensures=["start_index <= result[0] and result[0] <= len(source_string)",
                 f"forall(lambda k: {p}, start_index, result[0])",
                 f"implies(result[0] < len(source_string), {stop})",
                 "len(result[1]) == result[0] - start_index",
                 "forall(lambda k: char_at(result[1], k - start_index) == char_at(source_string, k), start_index, result[0])"],
        raises=[],   # with the precondition the two asserts cannot fire
    ))


scanner("extract_spaces", "ws")
scanner("extract_until_spaces", "notws", negate=True)
