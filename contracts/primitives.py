"""C05 (arithmetic / scanning primitives) -- also used by C11: the string scanners every column is built from."""
import z3

from pyvc.spec import Assumed, Contract, Loop, Raises, register, spec_fn
from pyvc.sym import V, fresh, sat, slen, vbool

PH = "pymarkdown/general/parser_helper.py::ParserHelper."
P = ["C05", "C11"]


@spec_fn("is_ws")
def is_ws(ex, st, args):
    """is_ws(s, k): character k of s is a space or a tab (ParserHelper.__normal_whitespace)"""
    s, k = args
    c = sat(V.s(s.z), V.i(k.z))
    return vbool(z3.Or(c == 32, c == 9))


register(Contract(key=PH + "is_character_at_index_whitespace", properties=P, pure=True,
                  ensures=["result == (0 <= index_in_string and index_in_string < len(source_string) and is_ws(source_string, index_in_string))"]))
register(Contract(key=PH + "is_character_at_index_not_whitespace", properties=P, pure=True,
                  ensures=["result == (0 <= index_in_string and index_in_string < len(source_string) and not is_ws(source_string, index_in_string))"]))
register(Contract(key=PH + "is_character_at_index", properties=["C05"], pure=True,
                  ensures=["implies(len(valid_character) == 1, result == (0 <= index_in_string and index_in_string < len(source_string) "
                           "and char_at(source_string, index_in_string) == char_at(valid_character, 0)))"]))


@spec_fn("char_at")
def char_at(ex, st, args):
    from pyvc.sym import vint
    s, k = args
    return vint(sat(V.s(s.z), V.i(k.z)))


def scanner(name, pred, negate=False):
    """scanners of the form: from start_index, advance while P(s[i]); returns (index, s[start:index]) or (None, None)"""
    p = ("not " if negate else "") + "is_ws(source_string, k)"
    stop = ("" if negate else "not ") + "is_ws(source_string, result[0])"
    register(Contract(
        key=PH + name, properties=P, pure=True,
        ensures=[
            "(result[0] is None) == (not (0 <= start_index and start_index <= len(source_string)))",
            "(result[1] is None) == (result[0] is None)",
            # the returned index is within the string, everything skipped satisfies the predicate, the character at the index does not
            "implies(result[0] is not None, start_index <= result[0] and result[0] <= len(source_string))",
            f"implies(result[0] is not None, forall(lambda k: {p}, start_index, result[0]))",
            f"implies(result[0] is not None and result[0] < len(source_string), {stop})",
            # the extracted text is exactly the skipped characters
            "implies(result[0] is not None, len(result[1]) == result[0] - start_index)",
            "implies(result[0] is not None, forall(lambda k: char_at(result[1], k - start_index) == char_at(source_string, k), start_index, result[0]))",
        ],
        loops={0: Loop(invariant=["start_index <= index and index <= len(source_string)", f"forall(lambda k: {p}, start_index, index)"],
                       variant="len(source_string) - index")},
    ))
    # the _verified twin: the asserts become facts (index in range) for callers with 0 <= start <= len
    register(Contract(
        key=PH + name + "_verified", properties=P, pure=True,
        requires=["0 <= start_index and start_index <= len(source_string)"],
        ensures=["start_index <= result[0] and result[0] <= len(source_string)",
                 f"forall(lambda k: {p}, start_index, result[0])",
                 f"implies(result[0] < len(source_string), {stop})",
                 "len(result[1]) == result[0] - start_index",
                 "forall(lambda k: char_at(result[1], k - start_index) == char_at(source_string, k), start_index, result[0])"],
        raises=[],   # with the precondition the two asserts cannot fire
    ))


scanner("extract_spaces", "ws")
scanner("extract_until_spaces", "notws", negate=True)

# ------------------------------------------------------------------------------------------------ C05: positions
MT = "pymarkdown/tokens/markdown_token.py::MarkdownToken."
RPK = "pymarkdown/plugin_manager/rule_plugin.py::RulePlugin."
PSCK = "pymarkdown/plugin_manager/plugin_scan_context.py::PluginScanContext."
from pyvc.spec import REGISTRY as _R
_R["$fields"].types.update({"PositionMarker.line_number": "int", "PositionMarker.index_number": "int", "PositionMarker.index_indent": "int",
                            "PluginDetails.plugin_id": "str", "PluginDetails.plugin_name": "str", "PluginDetails.plugin_description": "str",
                            "MarkdownToken._MarkdownToken__line_number": "int", "MarkdownToken._MarkdownToken__column_number": "int"})

register(Contract(
    key=MT + "__init__", properties=["C05", "C04"],
    types={"position_marker": "Optional[PositionMarker]"},
    # a token built from a position marker sits at the marker's line and at column index + indent + 1 (1-based);
    # otherwise at exactly the line / column it was given
    ensures=["implies(position_marker is not None, self.line_number == position_marker.line_number and "
             "self.column_number == position_marker.index_number + position_marker.index_indent + 1)",
             "implies(position_marker is None, self.line_number == line_number and self.column_number == column_number)",
             "self.token_name is token_name", "self._MarkdownToken__token_class == token_class",
             "self.requires_end_token == requires_end_token", "self.can_force_close == can_force_close"],
    modifies=["self.__token_name", "self.__token_class", "self.__extra_data", "self.__line_number", "self.__column_number",
              "self.__is_extension", "self.__requires_end_token", "self.__can_force_close", "self.__is_special"],
))

ADD = Assumed(PSCK + "add_triggered_rule[recorded]", params=["scan_file", "line_number", "column_number", "rule_id", "rule_name",
                                                             "rule_description", "extra_error_information", "does_support_fix"],
              pure=True, raises=[Raises("BadPluginError")],
              effects=["g_reports.append((scan_file, line_number, column_number, rule_id, extra_error_information))"],
              why="PluginScanContext.add_triggered_rule (its own contract is under C07); ghost g_reports records the call")
DETAILS = Assumed(RPK + "get_details", returns="PluginDetails", pure=True, why="static description of the rule (id, names, description)")
register(DETAILS)

register(Contract(
    key=RPK + "report_next_token_error", properties=["C05", "C07"],
    ghost={"g_reports": "List[Any]"},
    calls={"context.add_triggered_rule": ADD},
    types={"leaf_token": "SetextHeadingMarkdownToken"},
    ensures=[
        # exactly one report, for the scanned file, at the token's own (or original) position plus the stated deltas:
        # the line/column a user sees are copied from the token
        "len(g_reports) == old(len(g_reports)) + 1",
        "g_reports[len(g_reports) - 1][0] is context.scan_file",
        "implies(not use_original_position, g_reports[len(g_reports) - 1][1] == token.line_number + line_number_delta)",
        "implies(not use_original_position and column_number_delta >= 0, g_reports[len(g_reports) - 1][2] == token.column_number + column_number_delta)",
        "implies(column_number_delta < 0, g_reports[len(g_reports) - 1][2] == -column_number_delta)",
        "g_reports[len(g_reports) - 1][4] is extra_error_information",
    ],
    raises=[Raises("BadPluginError")],
    modifies=["g_reports.$list"],
))

register(Contract(
    key=RPK + "report_next_line_error", properties=["C05", "C07"],
    ghost={"g_reports": "List[Any]"},
    calls={"context.add_triggered_rule": ADD},
    ensures=["len(g_reports) == old(len(g_reports)) + 1",
             "g_reports[len(g_reports) - 1][1] == context.line_number + line_number_delta",
             "g_reports[len(g_reports) - 1][2] == column_number",
             "g_reports[len(g_reports) - 1][0] is context.scan_file"],
    raises=[Raises("BadPluginError")],
    modifies=["g_reports.$list"],
))

# collect_while_character: count and end index of a run of one character
register(Contract(
    key=PH + "collect_while_character", properties=["C05"], pure=True,
    requires=["len(match_character) == 1"],
    ensures=[
        "(result[0] is None) == (not (0 <= start_index and start_index <= len(source_string)))", "(result[1] is None) == (result[0] is None)",
        "implies(result[0] is not None, result[1] == start_index + result[0] and result[0] >= 0 and result[1] <= len(source_string))",
        "implies(result[0] is not None, forall(lambda k: char_at(source_string, k) == char_at(match_character, 0), start_index, result[1]))",
        "implies(result[0] is not None and result[1] < len(source_string), char_at(source_string, result[1]) != char_at(match_character, 0))",
    ],
    loops={0: Loop(invariant=["start_index <= index and index <= source_string_size", "source_string_size == len(source_string)",
                              "forall(lambda k: char_at(source_string, k) == char_at(match_character, 0), start_index, index)"],
                   variant="source_string_size - index")},
))

# str.find for a one-character needle: the defining properties (used by adjust_for_newlines)
FIND_NL = Assumed("str.find('\\n', start)", params=["sub", "start"], returns="int", pure=True,
                  ensures=["result == -1 or (start <= result and result < len(self) and char_at(self, result) == 10)",
                           "implies(result == -1, forall(lambda k: char_at(self, k) != 10, start, len(self)))",
                           "implies(result != -1, forall(lambda k: char_at(self, k) != 10, start, result))"],
                  why="str.find(ch, start) for start >= 0: index of the first occurrence at or after start, else -1")

register(Contract(
    key=PH + "adjust_for_newlines", properties=["C05"], pure=True,
    calls={"source_string.find": FIND_NL},
    requires=["0 <= start_index and start_index <= end_index and end_index <= len(source_string)"],
    ensures=[
        # no newline in [start, end): the column moves by end_index and the line does not change
        "implies(forall(lambda k: char_at(source_string, k) != 10, start_index, end_index), result[0] == end_index and result[1] == 0)",
        # otherwise the column restarts after the LAST newline in range: -(end - last_newline), and lines were added
        "implies(exists(lambda k: char_at(source_string, k) == 10, start_index, end_index), result[1] >= 1 and result[0] < 0 and "
        "start_index <= end_index + result[0] and char_at(source_string, end_index + result[0]) == 10 and "
        "forall(lambda k: char_at(source_string, k) != 10, end_index + result[0] + 1, end_index))",
    ],
    loops={0: Loop(invariant=[
        "newline_index == -1 or (start_index <= newline_index and newline_index < len(source_string) and char_at(source_string, newline_index) == 10)",
        "line_adjust >= 0",
        "implies(line_adjust == 0, col_adjust == end_index and (forall(lambda k: char_at(source_string, k) != 10, start_index, newline_index) if newline_index != -1 "
        "else forall(lambda k: char_at(source_string, k) != 10, start_index, len(source_string))))",
        "implies(line_adjust > 0, col_adjust < 0 and start_index <= end_index + col_adjust and end_index + col_adjust < end_index and char_at(source_string, end_index + col_adjust) == 10 and "
        "(forall(lambda k: char_at(source_string, k) != 10, end_index + col_adjust + 1, newline_index) if newline_index != -1 "
        "else forall(lambda k: char_at(source_string, k) != 10, end_index + col_adjust + 1, len(source_string))))",
    ])},
))

# ------------------------------------------------------------------------------------------------ C05: column after a multi-line label
# After a full reference link/image `[text][label]` whose label spans lines, what follows starts on the line of the label's last
# line, right behind `<last line of the label>]`: column = len(last line) + 1 (the bracket) + 1 (columns are 1-based).  The helper
# returns that column negated ("absolute column") and moves the line by the number of newlines in the label; a label without a
# newline changes nothing.  Characters of the last line are counted as they are in the source (nothing is stripped).
import z3 as _z3
from pyvc.sym import vint as _vint
IHH = "pymarkdown/inline/inline_handler_helper.py::InlineHandlerHelper."
_nl_count = _z3.Function("spec_newline_count", _z3.IntSort(), _z3.IntSort())
_last_len = _z3.Function("spec_last_line_length", _z3.IntSort(), _z3.IntSort())


@spec_fn("newline_count")
def _newline_count(ex, st, args):
    """number of newline characters in a string (uninterpreted, >= 0)"""
    v = _nl_count(V.s(args[0].z))
    st.assume(v >= 0)
    return _vint(v)


@spec_fn("last_line_length")
def _last_line_length(ex, st, args):
    """number of characters after the last newline of a string (uninterpreted, 0 <= . <= len)"""
    sid = V.s(args[0].z)
    v = _last_len(sid)
    st.assume(_z3.And(v >= 0, v <= slen(sid)))
    return _vint(v)


COUNT_NL = Assumed(PH + "count_newlines_in_text", params=["text_to_examine"], returns="int", pure=True,
                   ensures=["result == newline_count(text_to_examine)", "result >= 0"],
                   why="len(s) - len(s.replace('\\n', '')): the number of newlines (str.replace is outside the subset)")
LAST_LINE = Assumed(PH + "calculate_last_line", params=["text_string"], returns="str", pure=True,
                    ensures=["len(result) == last_line_length(text_string)"],
                    why="s.split('\\n')[-1]: the text after the last newline, unchanged (str.split is outside the subset)")
_R["$fields"].types.update({"ParagraphMarkdownToken.rehydrate_index": "int", "ReferenceMarkdownToken._ReferenceMarkdownToken__ex_label": "Optional[str]"})
LBL = "current_token.ex_label"
# inside a paragraph the leading whitespace of every line is kept by the paragraph token (split_paragraph_lines), not by the label
INDENT = "(len(split_paragraph_lines[para_owner.rehydrate_index]) if (split_paragraph_lines is not None and len(split_paragraph_lines) > 0) else 0)"
register(Contract(
    key=IHH + "__calculate_full_deltas", properties=["C05"],
    calls={"ParserHelper.count_newlines_in_text": COUNT_NL, "ParserHelper.calculate_last_line": LAST_LINE},
    requires=[f"{LBL} is not None",
              "implies(split_paragraph_lines is not None and len(split_paragraph_lines) > 0, para_owner is not None and "
              f"0 <= para_owner.rehydrate_index + newline_count({LBL}) < len(split_paragraph_lines))"],
    ensures=[
        f"implies(newline_count({LBL}) == 0, result[0] == delta_line and result[1] == repeat_count)",
        f"implies(newline_count({LBL}) > 0, result[0] == delta_line + newline_count({LBL}) and result[1] == -({INDENT} + last_line_length({LBL}) + 2))",
        f"implies(para_owner is not None, para_owner.rehydrate_index == old(para_owner.rehydrate_index) + newline_count({LBL}))",
    ],
    raises=[],
    modifies=["para_owner.rehydrate_index"],
))
