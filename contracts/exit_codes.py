"""C18 -- exit codes follow the documented table (DESIGN.md 5/C18)."""
import json
import os

import z3

from pyvc.spec import Assumed, Contract, Loop, Raises, register, spec_fn
from pyvc.sym import INTERN, V, Val, vint, vbool

_HERE = os.path.dirname(os.path.abspath(__file__))
TABLE = json.load(open(os.path.join(_HERE, "..", "specs", "exit_codes.json")))
CATS = ["SUCCESS", "NO_FILES_TO_SCAN", "COMMAND_LINE_ERROR", "FIXED_AT_LEAST_ONE_FILE", "SCAN_TRIGGERED_AT_LEAST_ONCE", "SYSTEM_ERROR"]


def _cat(name):
    return V.E(z3.IntVal(INTERN.enum_id("ApplicationResult." + name)))


@spec_fn("doc_exit_code")
def doc_exit_code(ex, st, args):
    """doc_exit_code(scheme_name_or_None, category): the documented table, as a function."""
    scheme, cat = args
    minimal = scheme.z == V.S(z3.IntVal(INTERN.string_id("minimal")))
    e = z3.IntVal(-1)
    for c in CATS:
        e = z3.If(cat.z == _cat(c), z3.If(minimal, TABLE["minimal"][c], TABLE["default"][c]), e)
    return vint(e)


@spec_fn("scheme_ok")
def scheme_ok(ex, st, args):
    """the stored scheme name is None, 'default' or 'minimal' (what argparse/choices and the validator let through)"""
    (s,) = args
    return vbool(z3.Or(s.z == V.none, s.z == V.S(z3.IntVal(INTERN.string_id("default"))),
                       s.z == V.S(z3.IntVal(INTERN.string_id("minimal")))))


@spec_fn("is_category")
def is_category(ex, st, args):
    (c,) = args
    return vbool(z3.Or([c.z == _cat(n) for n in CATS]))


RCH = "pymarkdown/return_code_helper.py::"
P = ["C18"]

for scheme, cls in (("default", "DefaultScheme"), ("minimal", "MinimalScheme")):
    register(Contract(
        key=f"{RCH}{cls}.get_scheme_mapping", properties=P,
        ensures=[f"result[ApplicationResult.{c}] == {TABLE[scheme][c]}" for c in CATS]
        + [f"ApplicationResult.{c} in result" for c in CATS] + ["len(result) == 6"],
        returns="Dict[ApplicationResult, int]",
    ))

register(Contract(
    key=f"{RCH}ReturnCodeHelper.exit_application", properties=P,
    requires=["scheme_ok(ReturnCodeHelper.__helper_name.value)", "is_category(application_result)"],
    ensures=["False"],  # never returns
    raises=[Raises("SystemExit", code="doc_exit_code(old(ReturnCodeHelper.__helper_name.value), application_result)")],
))

register(Contract(
    key=f"{RCH}ReturnCodeHelper.reset", properties=P + ["C13"],
    ensures=["ReturnCodeHelper.__helper_name.value is None"],
    modifies=["value"],
))


@spec_fn("doc_category")
def doc_category(ex, st, args):
    """Outcome category of a scan/fix run, from the category descriptions of the user guide:
    NO_FILES_TO_SCAN  'the paths presented to the application generated 0 files to scan'
    SYSTEM_ERROR      'an application error occurred'   (never masked: checked before the others)
    FIXED_AT_LEAST_ONE_FILE / SCAN_TRIGGERED_AT_LEAST_ONCE / SUCCESS."""
    err_scanning, n_files, stdin, failed, fixed, n_failures = args
    T = lambda v: ex.truthy(st, v)
    no_files = z3.Or(T(err_scanning), z3.And(V.i(n_files.z) == 0, z3.Not(T(stdin))))
    e = z3.If(no_files, _cat("NO_FILES_TO_SCAN"),
              z3.If(T(failed), _cat("SYSTEM_ERROR"),
                    z3.If(T(fixed), _cat("FIXED_AT_LEAST_ONE_FILE"),
                          z3.If(V.i(n_failures.z) > 0, _cat("SCAN_TRIGGERED_AT_LEAST_ONCE"), _cat("SUCCESS")))))
    from pyvc.sym import TH
    return Val(e, th=TH("ApplicationResult"))


MAIN = "pymarkdown/main.py::PyMarkdownLint."
SCHEME = "ReturnCodeHelper._ReturnCodeHelper__helper_name.value"
SYSERR = f"doc_exit_code(old({SCHEME}), ApplicationResult.SYSTEM_ERROR)"

register(Contract(
    key=MAIN + "__handle_error", properties=P + ["C15"],
    requires=[f"scheme_ok({SCHEME})"],
    ensures=["not exit_on_error"],
    raises=[Raises("SystemExit", when="exit_on_error", code=SYSERR)],
    modifies=[],
    types={"thrown_error": "Optional[Exception]"},
))

register(Contract(
    key=MAIN + "__initialize_parser", properties=P,
    requires=[f"scheme_ok({SCHEME})"],
    ensures=["self.__tokenizer is not None"],
    raises=[Raises("SystemExit", code=SYSERR)],
    modifies=["__tokenizer"],
    calls={
        "TokenizedMarkdown": Assumed("TokenizedMarkdown()", returns="TokenizedMarkdown", fresh_result=True,
                                     why="constructor of the parser: allocates, no failure modes modelled"),
        "self.__tokenizer.apply_configuration": Assumed("TokenizedMarkdown.apply_configuration", raises=[Raises("BadTokenizationError")],
                                                        why="parser configuration; documented to wrap every failure in BadTokenizationError"),
    },
))

register(Contract(
    key=MAIN + "__scan_files_if_no_errors", properties=P + ["C15", "C19", "C10"],
    requires=[f"scheme_ok({SCHEME})", "self.__plugins.number_of_scan_failures >= 0",
              # C19 hands over a duplicate-free list
              "forall(lambda a, b: implies(a < b, files_to_scan[a] != files_to_scan[b]), 0, len(files_to_scan))",
              "is_empty(g_succ) and is_empty(g_fix) and is_empty(g_announced) and is_empty(g_fixflag)", "not g_stdin_ok",
              "g_nfail == 0 and g_nfix == 0", "implies(use_standard_in, args.primary_subparser != 'fix')", "not g_called"],
    ghost={"g_succ": "List[bool]", "g_fix": "List[bool]", "g_fixflag": "Dict[str, bool]", "g_announced": "Set[str]", "g_stdin_ok": "bool",
           "g_nfail": "int", "g_nfix": "int", "g_called": "bool"},
    types={"args": "Namespace"},
    calls={"fsh.process_files_to_scan": ("pymarkdown/file_scan_helper.py::FileScanHelper.process_files_to_scan", ["g_called = True"])},
    ensures=[
        # the category is the documented function of: discovery error, number of files, per-file failures (g_nfail),
        # per-file fixes (g_nfix), reported rule failures
        "result == doc_category(did_error_scanning_files, len(files_to_scan), use_standard_in, "
        "(g_nfail > 0) if not use_standard_in else (not g_stdin_ok), g_nfix > 0, self.__plugins.number_of_scan_failures)",
        # C19: a discovery error means nothing is scanned
        "implies(did_error_scanning_files, not g_called)",
    ],
    raises=[Raises("SystemExit", code=SYSERR), Raises("Exception")],
    modifies=["*", "number_of_scan_failures"],
))
