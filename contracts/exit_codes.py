"""C18 -- exit codes follow the documented table (DESIGN.md 5/C18)."""
import json
import os

import z3

from pyvc.spec import Assumed, Contract, Loop, Raises, register, spec_fn
from pyvc.sym import INTERN, V, Val, vint, vbool

_HERE = os.path.dirname(os.path.abspath(__file__))
TABLE = json.load(open(os.path.join(_HERE, "..", "specs", "exit_codes.json")))
CATS = ["SUCCESS", "NO_FILES_TO_SCAN", "COMMAND_LINE_ERROR", "FIXED_AT_LEAST_ONE_FILE", "SCAN_TRIGGERED_AT_LEAST_ONCE", "SYSTEM_ERROR"]


def _cat(name):
    return V.E(z3.IntVal(INTERN.enum_id("ApplicationResult." + name)))


@spec_fn("doc_exit_code")
def doc_exit_code(ex, st, args):
    """doc_exit_code(scheme_name_or_None, category): the documented table, as a function."""
    scheme, cat = args
    minimal = scheme.z == V.S(z3.IntVal(INTERN.string_id("minimal")))
    e = z3.IntVal(-1)
    for c in CATS:
        e = z3.If(cat.z == _cat(c), z3.If(minimal, TABLE["minimal"][c], TABLE["default"][c]), e)
    return vint(e)


@spec_fn("scheme_ok")
def scheme_ok(ex, st, args):
    """the stored scheme name is None, 'default' or 'minimal' (what argparse/choices and the validator let through)"""
    (s,) = args
    return vbool(z3.Or(s.z == V.none, s.z == V.S(z3.IntVal(INTERN.string_id("default"))),
                       s.z == V.S(z3.IntVal(INTERN.string_id("minimal")))))


@spec_fn("is_category")
def is_category(ex, st, args):
    (c,) = args
    return vbool(z3.Or([c.z == _cat(n) for n in CATS]))


RCH = "pymarkdown/return_code_helper.py::"
P = ["C18"]

for scheme, cls in (("default", "DefaultScheme"), ("minimal", "MinimalScheme")):
    register(Contract(
        key=f"{RCH}{cls}.get_scheme_mapping", properties=P,
        ensures=[f"result[ApplicationResult.{c}] == {TABLE[scheme][c]}" for c in CATS]
        + [f"ApplicationResult.{c} in result" for c in CATS] + ["len(result) == 6"],
        returns="Dict[ApplicationResult, int]",
    ))

register(Contract(
    key=f"{RCH}ReturnCodeHelper.exit_application", properties=P,
    requires=["scheme_ok(ReturnCodeHelper.__helper_name.value)", "is_category(application_result)"],
    ensures=["False"],  # never returns
    raises=[Raises("SystemExit", code="doc_exit_code(old(ReturnCodeHelper.__helper_name.value), application_result)")],
))

register(Contract(
    key=f"{RCH}ReturnCodeHelper.reset", properties=P + ["C13"],
    ensures=["ReturnCodeHelper.__helper_name.value is None"],
    modifies=["value"],
))


@spec_fn("doc_category")
def doc_category(ex, st, args):
    """Outcome category of a scan/fix run, from the category descriptions of the user guide:
    NO_FILES_TO_SCAN  'the paths presented to the application generated 0 files to scan'
    SYSTEM_ERROR      'an application error occurred'   (never masked: checked before the others)
    FIXED_AT_LEAST_ONE_FILE / SCAN_TRIGGERED_AT_LEAST_ONCE / SUCCESS."""
    err_scanning, n_files, stdin, failed, fixed, n_failures = args
    T = lambda v: ex.truthy(st, v)
    no_files = z3.Or(T(err_scanning), z3.And(V.i(n_files.z) == 0, z3.Not(T(stdin))))
    e = z3.If(no_files, _cat("NO_FILES_TO_SCAN"),
              z3.If(T(failed), _cat("SYSTEM_ERROR"),
                    z3.If(T(fixed), _cat("FIXED_AT_LEAST_ONE_FILE"),
                          z3.If(V.i(n_failures.z) > 0, _cat("SCAN_TRIGGERED_AT_LEAST_ONCE"), _cat("SUCCESS")))))
    from pyvc.sym import TH
    return Val(e, th=TH("ApplicationResult"))


MAIN = "pymarkdown/main.py::PyMarkdownLint."
SCHEME = "ReturnCodeHelper._ReturnCodeHelper__helper_name.value"
SYSERR = f"doc_exit_code(old({SCHEME}), ApplicationResult.SYSTEM_ERROR)"

register(Contract(
    key=MAIN + "__handle_error", properties=P + ["C15"],
    requires=[f"scheme_ok({SCHEME})"],
    ensures=["not exit_on_error"],
    raises=[Raises("SystemExit", when="exit_on_error", code=SYSERR)],
    modifies=[],
    types={"thrown_error": "Optional[Exception]"},
))

register(Contract(
    key=MAIN + "__initialize_parser", properties=P,
    requires=[f"scheme_ok({SCHEME})"],
    ensures=["self.__tokenizer is not None"],
    raises=[Raises("SystemExit", code=SYSERR)],
    modifies=["__tokenizer"],
    calls={
        "TokenizedMarkdown": Assumed("TokenizedMarkdown()", returns="TokenizedMarkdown", fresh_result=True,
                                     why="constructor of the parser: allocates, no failure modes modelled"),
        "self.__tokenizer.apply_configuration": Assumed("TokenizedMarkdown.apply_configuration", raises=[Raises("BadTokenizationError")],
                                                        why="parser configuration; documented to wrap every failure in BadTokenizationError"),
    },
))

register(Contract(
    key=MAIN + "__scan_files_if_no_errors", properties=P + ["C15", "C19", "C10"],
    requires=[f"scheme_ok({SCHEME})", "self.__plugins.number_of_scan_failures >= 0",
              # C19 hands over a duplicate-free list
              "forall(lambda a, b: implies(a < b, files_to_scan[a] != files_to_scan[b]), 0, len(files_to_scan))",
              "is_empty(g_succ) and is_empty(g_fix) and is_empty(g_announced) and is_empty(g_fixflag)", "not g_stdin_ok",
              "g_nfail == 0 and g_nfix == 0", "implies(use_standard_in, args.primary_subparser != 'fix')", "not g_called",
              "is_empty(g_files) and is_empty(g_written)"],
    assume_entry=[("forall(lambda j: user_file(files_to_scan[j]), 0, len(files_to_scan))",
                   "the paths produced by file discovery are files of the user: none of them is a temporary file that this run creates later "
                   "(tempfile names are fresh)")],
    ghost={"g_succ": "List[bool]", "g_fix": "List[bool]", "g_fixflag": "Dict[str, bool]", "g_announced": "Set[str]", "g_stdin_ok": "bool",
           "g_nfail": "int", "g_nfix": "int", "g_called": "bool", "g_files": "Set[str]", "g_written": "Set[str]"},
    types={"args": "Namespace"},
    calls={"fsh.process_files_to_scan": ("pymarkdown/file_scan_helper.py::FileScanHelper.process_files_to_scan", ["g_called = True"])},
    ensures=[
        # the category is the documented function of: discovery error, number of files, per-file failures (g_nfail),
        # per-file fixes (g_nfix), reported rule failures
        "result == doc_category(did_error_scanning_files, old(len(files_to_scan)), use_standard_in, "
        "(g_nfail > 0) if not use_standard_in else (not g_stdin_ok), g_nfix > 0, self.__plugins.number_of_scan_failures)",
        # C19: a discovery error means nothing is scanned
        "implies(did_error_scanning_files, not g_called)",
        "is_category(result)",
        # C10: scan and scan-stdin are read-only; no run leaves a temporary file behind
        "implies(args.primary_subparser != 'fix', forall_val(lambda x: x not in g_written))",
        "forall_val(lambda x: x not in g_files)",
    ],
    raises=[Raises("SystemExit", code=SYSERR), Raises("Exception")],
    modifies=["*", "number_of_scan_failures"],
))


# ---------------------------------------------------------------------------------------------------------
# main(): every way out is ReturnCodeHelper.exit_application with the documented code for the active scheme.
@spec_fn("is_doc_code")
def is_doc_code(ex, st, args):
    """is_doc_code(code, scheme): code is table[scheme][c] for some category c"""
    code, scheme = args
    minimal = scheme.z == V.S(z3.IntVal(INTERN.string_id("minimal")))
    opts = []
    for c in CATS:
        opts.append(code.z == V.I(z3.If(minimal, TABLE["minimal"][c], TABLE["default"][c])))
    return vbool(z3.Or(opts))


CUR_SCHEME = SCHEME  # evaluated in the state in which the exception leaves
SYSERR_NOW = f"doc_exit_code({SCHEME}, ApplicationResult.SYSTEM_ERROR)"
AR = "pymarkdown/return_code_helper.py::ReturnCodeHelper."

register(Contract(
    key=AR + "__validate_return_code_scheme", properties=P,
    ensures=["result is argument", "argument == 'default' or argument == 'minimal'"],
    raises=[Raises("ValueError", when="not (argument == 'default' or argument == 'minimal')")],
))

register(Contract(
    key=AR + "set_initial_state", properties=P + ["C17"],
    # argparse `choices=` / `type=` let only None, 'default', 'minimal' through (assumed argparse contract)
    requires=["scheme_ok(args.return_code_scheme)"],
    types={"args": "Namespace", "properties": "ApplicationProperties"},
    calls={"properties.get_string_property": Assumed(
        "ApplicationProperties.get_string_property[mode.return_code_scheme]", returns="Optional[str]", pure=True,
        raises=[Raises("ValueError")], ensures=["scheme_ok(result)"],
        why="application_properties: with strict_mode=True a present value is returned only if valid_value_fn accepts it "
            "(ReturnCodeHelper.__validate_return_code_scheme, proved to accept exactly 'default' and 'minimal'), otherwise ValueError; "
            "an absent key yields the default None")},
    ensures=[f"scheme_ok({SCHEME})",
             # precedence: command line argument, then configuration, then 'default'
             f"implies(args.return_code_scheme is not None, {SCHEME} is args.return_code_scheme)",
             f"{SCHEME} is not None"],
    raises=[Raises("ValueError", modifies=[], ensures=[f"{SCHEME} is old({SCHEME})"])],
    modifies=["value"],
))

register(Contract(
    key=MAIN + "__parse_arguments", properties=P,
    requires=[f"{SCHEME} is None"],
    types={"parse_arguments": "Namespace"},
    calls={
        "argparse.ArgumentParser": Assumed("argparse.ArgumentParser()", returns="ArgumentParser", fresh_result=True, why="argparse"),
        "parser.add_argument": Assumed("ArgumentParser.add_argument", pure=True, why="argparse declaration"),
        "parser.add_subparsers": Assumed("ArgumentParser.add_subparsers", pure=True, returns="SubParsers", fresh_result=True, why="argparse"),
        "subparsers.add_parser": Assumed("SubParsers.add_parser", pure=True, why="argparse"),
        "parser.print_help": Assumed("ArgumentParser.print_help", pure=True, why="argparse"),
        "ApplicationPropertiesUtilities.add_default_command_line_arguments": Assumed("APU.add_default_command_line_arguments", pure=True, why="argparse declarations"),
        "ApplicationLogging.add_default_command_line_arguments": Assumed("ApplicationLogging.add_default_command_line_arguments", pure=True, why="argparse declarations"),
        "ReturnCodeHelper.add_command_line_arguments": Assumed("ReturnCodeHelper.add_command_line_arguments", pure=True, why="argparse declarations"),
        "ExtensionManager.add_argparse_subparser": Assumed("ExtensionManager.add_argparse_subparser", pure=True, why="argparse declarations"),
        "PluginManager.add_argparse_subparser": Assumed("PluginManager.add_argparse_subparser", pure=True, why="argparse declarations"),
        "FileScanHelper.add_argparse_subparser": Assumed("FileScanHelper.add_argparse_subparser", pure=True, why="argparse declarations"),
        "parser.parse_args": Assumed("ArgumentParser.parse_args", returns="Namespace", fresh_result=True, pure=True,
                                     raises=[Raises("SystemExit", code="2")],
                                     ensures=["scheme_ok(result.return_code_scheme)"],
                                     why="argparse: an invalid command line exits with status 2 (== COMMAND_LINE_ERROR in both schemes); "
                                         "--return-code-scheme has choices ['default','minimal'] so its value is None or one of them"),
    },
    ensures=["result.primary_subparser is not None", "result.primary_subparser != 'version'", "scheme_ok(result.return_code_scheme)",
             "len(result.primary_subparser) > 0"],
    raises=[Raises("SystemExit", ensures=["raised.code == 2 or raised.code == 0"])],
    modifies=[],
))

ACH = "pymarkdown/application_configuration_helper.py::ApplicationConfigurationHelper."
PMK = "pymarkdown/plugin_manager/plugin_manager.py::PluginManager."
EMK = "pymarkdown/extension_manager/extension_manager.py::ExtensionManager."
SYS_EXIT = Raises("SystemExit", ensures=[f"raised.code == {SYSERR_NOW}"])

register(Assumed(ACH + "apply_configuration_layers", raises=[Raises("SystemExit", code=SYSERR), Raises("ValueError"), Raises("Exception")],
                 modifies=["$properties_state"],
                 why="configuration loading (C17 puts its layer order under contract); on a load error it calls the handle_error callback "
                     "(PyMarkdownLint.__handle_error => SystemExit(SYSTEM_ERROR)) or raises"))
register(Assumed("pymarkdown/application_logging.py::ApplicationLogging.pre_initialize_with_args", modifies=["$logging_state"], raises=[Raises("Exception")], why="logging set-up"))
register(Assumed("pymarkdown/application_logging.py::ApplicationLogging.initialize", modifies=["$logging_state"], raises=[Raises("Exception")], why="logging set-up (bad --log-level raises)"))
register(Assumed("pymarkdown/application_logging.py::ApplicationLogging.terminate", modifies=["$logging_state"], why="logging tear-down"))
register(Assumed("pymarkdown/general/parser_logger.py::ParserLogger.sync_on_next_call", pure=True, why="logging"))
register(Assumed(PMK + "initialize", raises=[Raises("BadPluginError"), Raises("ValueError")], modifies=["$plugin_registry", "number_of_scan_failures"],
                 ensures=["self.number_of_scan_failures == 0"],
                 why="plugin discovery and registration (C17 puts the enable/disable precedence under contract); zeroes the failure counter first (line 93)"))
PM_APPLY_OPAQUE = Assumed(PMK + "apply_configuration[as seen by the exit-code chain]", raises=[Raises("Exception")], modifies=["$plugin_registry"],
                          why="per-rule configuration: for the exit-code chain only 'may raise any Exception' matters; what it does is under "
                              "contract in contracts/configuration.py (C14/C17)")
register(Assumed(EMK + "initialize", raises=[Raises("Exception")], modifies=["$extension_registry"], why="extension discovery"))
register(Assumed(EMK + "apply_configuration", raises=[Raises("Exception")], modifies=["$extension_registry"], why="extension configuration (C20)"))
register(Assumed(PMK + "handle_argparse_subparser", returns="ApplicationResult", pure=True, ensures=["is_category(result)"],
                 why="plugins sub-command: returns a member of ApplicationResult (SUCCESS or COMMAND_LINE_ERROR)"))
register(Assumed(EMK + "handle_argparse_subparser", returns="ApplicationResult", pure=True, ensures=["is_category(result)"],
                 why="extensions sub-command: returns a member of ApplicationResult"))
register(Assumed(PMK + "argparse_subparser_name", returns="str", pure=True, why="constant"))
register(Assumed(EMK + "argparse_subparser_name", returns="str", pure=True, why="constant"))
register(Assumed("os.path.dirname", returns="str", pure=True, why="path arithmetic"))
register(Assumed("os.path.realpath", returns="str", pure=True, why="path arithmetic"))
register(Assumed("os.path.join", returns="str", pure=True, why="path arithmetic"))

from pyvc.spec import REGISTRY as _R2
_R2["$fields"].types.update({"PyMarkdownLint._PyMarkdownLint__properties": "ApplicationProperties",
                             "PyMarkdownLint._PyMarkdownLint__extensions": "ExtensionManager",
                             "PyMarkdownLint._PyMarkdownLint__plugins": "PluginManager"})
_R2["$namespace"].types.update({"add_plugin": "Optional[List[str]]", "strict_configuration": "bool"})

INIT_RAISES = [SYS_EXIT]
for name in ("__set_initial_state",):
    register(Contract(
        key=MAIN + name, properties=P,
        requires=[f"{SCHEME} is None", "scheme_ok(args.return_code_scheme)"],
        types={"args": "Namespace"},
        ensures=[f"scheme_ok({SCHEME})"],
        raises=[Raises("SystemExit", ensures=[f"raised.code == {SYSERR_NOW}", f"scheme_ok({SCHEME})"]),
                Raises("ValueError", ensures=[f"{SCHEME} is None"]), Raises("Exception", ensures=[f"{SCHEME} is None"])],
        modifies=["value", "$properties_state", "$logging_state"],
        calls={"ApplicationConfigurationHelper.apply_configuration_layers": ACH + "apply_configuration_layers"},
    ))

for name, extra in (("__initialize_plugin_manager", []), ("__apply_configuration_to_plugins", []), ("__initialize_plugins", []),
                    ("__initialize_extensions", [])):
    register(Contract(
        key=MAIN + name, properties=P,
        requires=[f"scheme_ok({SCHEME})"],
        types={"args": "Namespace"},
        raises=[SYS_EXIT] + ([Raises("ValueError")] if name == "__initialize_plugin_manager" else []),
        modifies={"__initialize_extensions": ["$extension_registry"], "__apply_configuration_to_plugins": ["$plugin_registry"]}.get(
            name, ["$plugin_registry", "number_of_scan_failures"]),
        ensures=(["self.__plugins.number_of_scan_failures == 0"] if name in ("__initialize_plugin_manager", "__initialize_plugins") else []),
        calls=({"self.__plugins.apply_configuration": PM_APPLY_OPAQUE} if name == "__apply_configuration_to_plugins" else {}),
    ))

register(Contract(
    key=MAIN + "__initialize_plugins_and_extensions", properties=P,
    requires=[f"scheme_ok({SCHEME})"], types={"args": "Namespace"},
    ensures=["self.__plugins.number_of_scan_failures == 0"],
    # the plugins / extensions sub-commands end the run with the documented code of the category they return
    raises=[Raises("SystemExit", ensures=[f"is_doc_code(raised.code, {SCHEME})"])],
    modifies=["$plugin_registry", "$extension_registry", "number_of_scan_failures"],
))

register(Contract(
    key=MAIN + "__initialize_subsystems", properties=P + ["C13"],
    types={"args": "Namespace"},
    ensures=[f"scheme_ok({SCHEME})", "result.primary_subparser is not None", "self.__plugins.number_of_scan_failures == 0"],
    raises=[Raises("SystemExit", ensures=[f"scheme_ok({SCHEME})", f"is_doc_code(raised.code, {SCHEME})"]),
            Raises("ValueError", ensures=[f"scheme_ok({SCHEME})"]), Raises("Exception", ensures=[f"scheme_ok({SCHEME})"])],
    modifies=["value", "$properties_state", "$logging_state", "$plugin_registry", "$extension_registry", "number_of_scan_failures",
              "__show_stack_trace"],
    calls={"self.__properties.get_boolean_property": Assumed("ApplicationProperties.get_boolean_property", returns="bool", pure=True,
                                                             raises=[Raises("ValueError")], why="typed getter of application_properties")},
))

AFS = "pymarkdown/application_file_scanner.py::ApplicationFileScanner."
register(Contract(
    key=MAIN + "__find_files_to_scan", properties=P + ["C19"],
    types={"args": "Namespace"},
    calls={"ApplicationFileScanner.determine_files_to_scan": AFS + "determine_files_to_scan"},
    ensures=["result[0] == (args.primary_subparser == 'scan-stdin')",
             "forall(lambda a, b: implies(a < b, result[1][a] != result[1][b]), 0, len(result[1]))",
             "implies(result[0], len(result[1]) == 0 and not result[2] and not result[3])"],
    raises=[],
    modifies=[],
))

register(Contract(
    key=MAIN + "main", properties=P + ["C15"],
    ghost={"g_scanned": "bool", "g_cat": "ApplicationResult", "g_exc": "bool", "g_listed": "bool", "g_nfiles": "int", "g_err": "bool"},
    requires=["not g_scanned", "not g_exc", "not g_listed"],
    types={"args": "Namespace"},
    calls={
        "self.__scan_files_if_no_errors": (MAIN + "__scan_files_if_no_errors", ["g_scanned = True", "g_cat = result"], ["g_exc = True"]),
        "self.__find_files_to_scan": (MAIN + "__find_files_to_scan", ["g_listed = result[3]", "g_nfiles = len(result[1])", "g_err = result[2]"], ["g_exc = True"]),
        "self.__initialize_subsystems": (MAIN + "__initialize_subsystems", [], ["g_exc = True"]),
    },
    ensures=["False"],   # main() never returns: it always leaves through ReturnCodeHelper.exit_application
    raises=[Raises("SystemExit", ensures=[
        # whatever happened, the exit code is an entry of the documented table for the selected scheme
        f"is_doc_code(raised.code, {SCHEME})",
        # C15: an unexpected exception anywhere below main() ends in SYSTEM_ERROR, never in a clean result
        f"implies(g_exc, raised.code == {SYSERR_NOW})",
        # a completed scan / fix exits with the code of its documented category
        f"implies(g_scanned and not g_exc, raised.code == doc_exit_code({SCHEME}, g_cat))",
        # --list-files: NO_FILES_TO_SCAN iff nothing is selected or an argument was in error (independent of argument order)
        f"implies(g_listed and not g_exc, raised.code == doc_exit_code({SCHEME}, ApplicationResult.NO_FILES_TO_SCAN if (g_nfiles == 0 or g_err) else ApplicationResult.SUCCESS))",
    ])],
    modifies=["*"],
))
