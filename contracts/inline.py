"""C05 -- inline code spans: when the running line number moves on."""
from pyvc.spec import Assumed, Contract, Raises, register
from pyvc.spec import REGISTRY as _R

IBH = "pymarkdown/inline/inline_backtick_helper.py::InlineBacktickHelper."
_R["$fields"].types.update({"InlineResponse.delta_line_number": "int", "InlineResponse.delta_column_number": "int",
                            "InlineResponse.new_index": "Optional[int]", "InlineResponse.new_string": "Optional[str]",
                            "InlineResponse.adj_newlines": "int", "InlineResponse.new_tokens": "List[MarkdownToken]",
                            "InlineRequest.source_text": "str", "InlineRequest.line_number": "Optional[int]",
                            "InlineRequest.column_number": "Optional[int]", "InlineRequest.remaining_line": "Optional[str]"})
# A code span is `ticks` + BETWEEN + `ticks`, BETWEEN = source_text[new_index:end_backtick_start_index].  Every newline of BETWEEN is a
# line of the source the inline pass has moved over, whatever the span's padding rules strip from the CONTENT afterwards: the response
# asks for a line / column restart (delta_line_number >= 0) exactly when BETWEEN contains a newline; otherwise delta_line_number stays
# -1 ("same line": the caller then advances the column by the characters consumed).  Seeded change C05-C decided this on the stripped text.
BETWEEN = "inline_request.source_text[new_index:end_backtick_start_index]"
# the text between the backticks is taken from the source once and handed back unchanged, whatever is done to the CONTENT afterwards
def _pure_str(name, params, why):
    return Assumed(name, params=params, returns="str", pure=True, why=why)


TABBED = Assumed(IBH + "__calculate_backtick_between_tabified_text", params=["inline_request", "new_index", "end_backtick_start_index"],
                 returns="Tuple[str, int]", pure=True, why="the span's content re-read from the tabified line (content only, not a position)")
CALCBT = IBH + "__calculate_backtick_between_text"
register(Contract(
    key=CALCBT, properties=["C05"],
    calls={"InlineBacktickHelper.__calculate_backtick_between_tabified_text": TABBED,
           "ParserHelper.create_replacement_markers": _pure_str("ParserHelper.create_replacement_markers", ["replace_this_string", "with_this_string"],
                                                                "marker text for a replaced newline (content only)"),
           "ParserHelper.escape_special_characters": _pure_str("ParserHelper.escape_special_characters", ["string_to_escape"], "escapes the content (content only)"),
           "InlineBacktickHelper.__adjust_for_injected_noops": _pure_str(IBH + "__adjust_for_injected_noops", ["between_text"], "content only")},
    requires=["0 <= new_index and new_index <= end_backtick_start_index and end_backtick_start_index <= len(inline_request.source_text)"],
    ensures=[f"result[1] is {BETWEEN}"],
    raises=[], modifies=[],
))
APPEND = Assumed("InlineHelper.append_text", params=["string_to_append_to", "text_to_append"], returns="str", pure=True,
                 why="escapes the span's content for the token (presentation of the content, not its position)")
CALCD = Assumed("ParserHelper.calculate_deltas", params=["text_to_analyze"], returns="Tuple[int, int]", pure=True,
                ensures=["result[0] >= 0"],
                why="ParserHelper.calculate_deltas: (number of newlines, column delta) (str.split is outside the subset)")
NEWSPAN = Assumed("InlineCodeSpanMarkdownToken()", params=["span_text", "extracted_start_backticks", "leading_whitespace", "trailing_whitespace",
                                                             "line_number", "column_number"],
                  returns="InlineCodeSpanMarkdownToken", fresh_result=True, pure=True,
                  ensures=["result.line_number == line_number and result.column_number == column_number"],
                  why="token constructor: InlineMarkdownToken / MarkdownToken.__init__ (own contracts, C05) with an explicit position")
register(Contract(
    key=IBH + "__build_backtick_response", properties=["C05"],
    calls={"InlineBacktickHelper.__calculate_backtick_between_text": CALCBT, "InlineHelper.append_text": APPEND,
           "ParserHelper.calculate_deltas": CALCD, "InlineCodeSpanMarkdownToken": NEWSPAN},
    requires=["0 <= new_index",
              "(end_backtick_start_index == -1 or (new_index <= end_backtick_start_index and end_backtick_start_index <= len(inline_request.source_text)))",
              "inline_request.line_number is not None and inline_request.column_number is not None and inline_request.remaining_line is not None"],
    ensures=[
        "implies(end_backtick_start_index == -1, result.delta_line_number == -1 and result.new_index == new_index)",
        f"implies(end_backtick_start_index != -1 and '\\n' not in {BETWEEN}, result.delta_line_number == -1)",
        f"implies(end_backtick_start_index != -1 and '\\n' in {BETWEEN}, result.delta_line_number >= 0)",
        "implies(end_backtick_start_index != -1, result.new_index == end_backtick_start_index + extracted_start_backticks_size)",
        # the code span token itself sits where the span starts
        "implies(end_backtick_start_index != -1, len(result.new_tokens) == 1 and result.new_tokens[0].line_number == inline_request.line_number and "
        "result.new_tokens[0].column_number == inline_request.column_number + len(inline_request.remaining_line))",
    ],
    raises=[],
    modifies=[],
))
