"""C14 / C16 -- source providers deliver exactly the lines of the file, in order."""
import z3

from pyvc.spec import Assumed, Contract, Loop, Raises, register, spec_fn
from pyvc.sym import V, fresh, sat, slen, vbool

FSP = "pymarkdown/general/source_providers.py::FileSourceProvider."
LINES = "self.__read_lines"


@spec_fn("newline_free")
def newline_free(ex, st, args):
    """newline_free(s, lo, hi): no '\\n' among s[lo:hi]"""
    s, lo, hi = args
    k = fresh("k", z3.IntSort())
    sid = V.s(s.z)
    return vbool(z3.ForAll([k], z3.Implies(z3.And(V.i(lo.z) <= k, k < V.i(hi.z)), sat(sid, k) != 10)))


# what one raw line contributes: its text without the terminating newline
CONTENT = "(g_raw[k][:-1] if g_raw[k].endswith('\\n') else g_raw[k])"
ENDS_NL = "(len(g_raw) == 0 or g_raw[len(g_raw) - 1].endswith('\\n'))"

register(Contract(
    key=FSP + "__init__", properties=["C14", "C16"],
    ghost={"g_raw": "List[str]"},
    calls={"file_to_parse.readlines": ("TextFile.readlines", ["g_raw = result"])},
    ensures=["self.__read_index == 0",
             f"self.__did_final_line_end_with_newline == {ENDS_NL}",
             f"len({LINES}) == len(g_raw) + (1 if {ENDS_NL} else 0)",
             f"forall(lambda k: {LINES}[k] == {CONTENT}, 0, len(g_raw))",
             f"implies({ENDS_NL}, {LINES}[len(g_raw)] == '')",
             f"len({LINES}) >= 1"],
    raises=[Raises("OSError"), Raises("UnicodeError")],
    modifies=["__read_lines", "__read_index", "__did_final_line_end_with_newline"],
    loops={0: Loop(index="idx", invariant=[
        f"len({LINES}) == idx", f"forall(lambda k: {LINES}[k] == {CONTENT}, 0, idx)",
        "file_as_lines is g_raw", "did_line_end_in_newline == (idx == 0 or g_raw[idx - 1].endswith('\\n'))",
        f"{LINES} is not g_raw",
    ])},
))

register(Contract(
    key=FSP + "get_next_line", properties=["C14"],
    requires=["self.__read_index >= 0"],
    ensures=[f"implies(old(self.__read_index) >= len({LINES}), result is None and self.__read_index == old(self.__read_index))",
             f"implies(old(self.__read_index) < len({LINES}), result is {LINES}[old(self.__read_index)] and self.__read_index == old(self.__read_index) + 1)",
             f"implies(old(self.__read_index) < len({LINES}), result is not None)"],
    modifies=["self.__read_index"],
))

register(Contract(
    key=FSP + "reset_to_start", properties=["C14"],
    ensures=["self.__read_index == 0"], modifies=["self.__read_index"],
))
