"""C14 / C16 -- source providers deliver exactly the lines of the file, in order."""
import z3

from pyvc.spec import Assumed, Contract, Loop, Raises, register, spec_fn
from pyvc.sym import V, fresh, sat, slen, vbool

FSP = "pymarkdown/general/source_providers.py::FileSourceProvider."
LINES = "self.__read_lines"


@spec_fn("newline_free")
def newline_free(ex, st, args):
    """newline_free(s, lo, hi): no '\\n' among s[lo:hi]"""
    s, lo, hi = args
    k = fresh("k", z3.IntSort())
    sid = V.s(s.z)
    return vbool(z3.ForAll([k], z3.Implies(z3.And(V.i(lo.z) <= k, k < V.i(hi.z)), sat(sid, k) != 10)))


# what one raw line contributes: its text without the terminating newline
CONTENT = "(g_raw[k][:-1] if g_raw[k].endswith('\\n') else g_raw[k])"
ENDS_NL = "(len(g_raw) == 0 or g_raw[len(g_raw) - 1].endswith('\\n'))"

# the document is opened as strict utf-8 text with universal newlines: a file that cannot be decoded must surface as an
# error (C15), never be silently altered (errors='replace'/'ignore') and `newline=` must not change what a line is
OPEN_STRICT = Assumed("builtins.open[document]", params=["file", "mode", "buffering", "encoding", "errors", "newline"], returns="TextFile",
                      fresh_result=True, raises=[Raises("OSError")], pure=True,
                      requires=["errors is None or errors == 'strict'", "newline is None", "encoding == 'utf-8'",
                                "mode is None or mode == 'r' or mode == 'rt'"],
                      why="open() returns a file object or raises OSError; the file system is not modelled")

register(Contract(
    key=FSP + "__init__", properties=["C14", "C16", "C15", "C05", "C07"],
    ghost={"g_raw": "List[str]"},
    calls={"file_to_parse.readlines": ("TextFile.readlines", ["g_raw = result"]), "open": OPEN_STRICT},
    ensures=["self.__read_index == 0",
             f"self.__did_final_line_end_with_newline == {ENDS_NL}",
             f"len({LINES}) == len(g_raw) + (1 if {ENDS_NL} else 0)",
             f"forall(lambda k: {LINES}[k] == {CONTENT}, 0, len(g_raw))",
             f"implies({ENDS_NL}, {LINES}[len(g_raw)] == '')",
             f"len({LINES}) >= 1"],
    raises=[Raises("OSError"), Raises("UnicodeError")],
    modifies=["__read_lines", "__read_index", "__did_final_line_end_with_newline"],
    loops={0: Loop(index="idx", invariant=[
        f"len({LINES}) == idx", f"forall(lambda k: {LINES}[k] == {CONTENT}, 0, idx)",
        "file_as_lines is g_raw", "did_line_end_in_newline == (idx == 0 or g_raw[idx - 1].endswith('\\n'))",
        f"{LINES} is not g_raw",
    ])},
))

register(Contract(
    key=FSP + "get_next_line", properties=["C14"],
    requires=["self.__read_index >= 0"],
    ensures=[f"implies(old(self.__read_index) >= len({LINES}), result is None and self.__read_index == old(self.__read_index))",
             f"implies(old(self.__read_index) < len({LINES}), result is {LINES}[old(self.__read_index)] and self.__read_index == old(self.__read_index) + 1)",
             f"implies(old(self.__read_index) < len({LINES}), result is not None)"],
    modifies=["self.__read_index"],
))

register(Contract(
    key=FSP + "reset_to_start", properties=["C14"],
    ensures=["self.__read_index == 0"], modifies=["self.__read_index"],
))


# ---------------------------------------------------------------------------------------------------------------
# Conformance battery (used ONLY when the verifier cannot decide FileSourceProvider.__init__, e.g. after a rewrite that
# leaves the subset): the postcondition above, evaluated natively against readlines() of the same file.
from pyvc import replay as _rp  # noqa: E402

_FSP_BATTERY = r'''
import os, sys, tempfile
from pymarkdown.general.source_providers import FileSourceProvider
CASES = ["", "\n", "a", "a\n", "a\nb", "a\n\nb\n", "a\x0cb\nc\n", "a\x0bb\n", "a\x1cb\x1dc\x1ed\n", "a\x85b\n",
         "a b c\n", "a\r\nb\rc\n", "\n\n", " \n\t", "a\n\x0c", "a\x0c"]
bad = []
for text in CASES:
    fd, name = tempfile.mkstemp(suffix=".md"); os.close(fd)
    try:
        with open(name, "wb") as f: f.write(text.encode("utf-8"))
        with open(name, encoding="utf-8") as f: g_raw = f.readlines()
        ends_nl = len(g_raw) == 0 or g_raw[-1].endswith("\n")
        want = [(r[:-1] if r.endswith("\n") else r) for r in g_raw] + ([""] if ends_nl else [])
        p = FileSourceProvider(name)
        got = []
        while True:
            line = p.get_next_line()
            if line is None: break
            got.append(line)
        if got != want or p.did_final_line_end_with_newline != ends_nl:
            bad.append((text, want, got, ends_nl, p.did_final_line_end_with_newline))
    finally:
        os.remove(name)
for b in bad:
    print("file content %r: expected lines %r, provider delivered %r (ends_nl expected %r, got %r)" % b)
sys.exit(1 if bad else 0)
'''


@_rp.battery(FSP + "__init__")
def _fsp_battery():
    return _rp.run_script(_FSP_BATTERY, "the provider delivers readlines() of the file, each line without its newline, plus '' iff the text ends with a newline")


# ---------------------------------------------------------------------------------------------------------------
# InMemorySourceProvider (scan_string / fix_string / the API): the same lines as a file.  The provider keeps the text still to be
# delivered as `split('\n', 1)` of it: [next line] or [next line, rest].  Each call delivers the text up to the first newline and keeps
# exactly what follows it; nothing is dropped, and a text ending in a newline ends with an empty last line -- the line structure
# FileSourceProvider produces for the same characters.
from pyvc.spec import REGISTRY as _R  # noqa: E402
IMP = "pymarkdown/general/source_providers.py::InMemorySourceProvider."
T = "self.__next_line_tuple"
_R["$fields"].types.update({"InMemorySourceProvider._InMemorySourceProvider__next_line_tuple": "List[str]"})
SPLIT1 = Assumed("str.split('\\n', 1)", params=["sep", "maxsplit"], returns="List[str]", fresh_result=True, pure=True,
                 requires=["sep == '\\n'", "maxsplit == 1"],
                 ensures=["len(result) == 1 or len(result) == 2",
                          "newline_free(result[0], 0, len(result[0]))",
                          "len(result[0]) <= len(self)",
                          "forall(lambda k: char_at(result[0], k) == char_at(self, k), 0, len(result[0]))",
                          "(len(result) == 1) == newline_free(self, 0, len(self))",
                          "implies(len(result) == 1, len(result[0]) == len(self))",
                          "implies(len(result) == 2, char_at(self, len(result[0])) == 10 and len(result[1]) == len(self) - len(result[0]) - 1)",
                          "implies(len(result) == 2, forall(lambda k: char_at(result[1], k) == char_at(self, len(result[0]) + 1 + k), 0, len(result[1])))"],
                 why="str.split(sep, 1) for a one-character separator: [s] if sep does not occur, else [text before the first sep, text after it]")
WF = f"(len({T}) == 0 or len({T}) == 1 or len({T}) == 2) and implies(len({T}) >= 1, newline_free({T}[0], 0, len({T}[0])))"
register(Contract(
    key=IMP + "__init__", properties=["C16", "C14"],
    calls={"source_text.split": SPLIT1},
    ensures=[WF, f"len({T}) >= 1", f"forall(lambda k: char_at({T}[0], k) == char_at(source_text, k), 0, len({T}[0]))",
             f"(len({T}) == 1) == newline_free(source_text, 0, len(source_text))",
             f"implies(len({T}) == 2, len({T}[1]) == len(source_text) - len({T}[0]) - 1 and "
             f"forall(lambda k: char_at({T}[1], k) == char_at(source_text, len({T}[0]) + 1 + k), 0, len({T}[1])))"],
    modifies=["self.__next_line_tuple"],
))
REST = f"old({T}[1])"
register(Contract(
    key=IMP + "get_next_line", properties=["C16", "C14"],
    calls={"self.__next_line_tuple[1].split": SPLIT1},
    requires=[WF],
    ensures=[WF,
             f"implies(old(len({T})) == 0, result is None and len({T}) == 0)",
             f"implies(old(len({T})) >= 1, result is old({T}[0]))",
             f"implies(old(len({T})) == 1, len({T}) == 0)",
             # what remains is exactly the text after the newline, split again: nothing is dropped or duplicated
             f"implies(old(len({T})) == 2, len({T}) >= 1 and forall(lambda k: char_at({T}[0], k) == char_at({REST}, k), 0, len({T}[0])) and "
             f"((len({T}) == 1) == newline_free({REST}, 0, len({REST}))))",
             f"implies(old(len({T})) == 2 and len({T}) == 2, len({T}[1]) == len({REST}) - len({T}[0]) - 1 and "
             f"forall(lambda k: char_at({T}[1], k) == char_at({REST}, len({T}[0]) + 1 + k), 0, len({T}[1])))",
             f"implies(old(len({T})) == 2 and len({T}) == 1, len({T}[0]) == len({REST}))"],
    raises=[],
    modifies=["self.__next_line_tuple"],
))

_IMP_BATTERY = r'''
import os, sys, tempfile
from pymarkdown.general.source_providers import FileSourceProvider, InMemorySourceProvider
CASES = ["", "\n", "a", "a\n", "a\nb", "a\n\nb\n", "a\x0cb\nc\n", "a\x0bb\n", "a\x1cb\x1dc\x1ed\n", "a\x85b\n", "a b c\n", "\n\n", " \n\t", "a\n\x0c", "a\x0c"]
def drain(p):
    out = []
    while True:
        line = p.get_next_line()
        if line is None: return out
        out.append(line)
bad = []
for text in CASES:
    fd, name = tempfile.mkstemp(suffix=".md"); os.close(fd)
    try:
        with open(name, "wb") as f: f.write(text.encode("utf-8"))
        want, got = drain(FileSourceProvider(name)), drain(InMemorySourceProvider(text))
        if want != got or got != text.split("\n"):
            bad.append((text, text.split("\n"), want, got))
    finally:
        os.remove(name)
for b in bad:
    print("text %r: lines at newlines %r, file provider %r, in-memory provider %r" % b)
sys.exit(1 if bad else 0)
'''


@_rp.battery(IMP + "__init__")
@_rp.battery(IMP + "get_next_line")
def _imp_battery():
    return _rp.run_script(_IMP_BATTERY, "the in-memory provider delivers exactly the lines between newlines, the same as the file provider")
