"""C06 -- rules whose step function is small enough to be specified against the documented trigger condition."""
from pyvc.spec import Assumed, Contract, Loop, Raises, register
from pyvc.spec import REGISTRY as _R

P = ["C06"]
RPK = "pymarkdown/plugin_manager/rule_plugin.py::RulePlugin."

# ------------------------------------------------------------------------------------------------------------ MD013
# newdocs/src/plugins/rule_md013.md: "This rule triggers if the length of any line exceeds a given character count";
# heading_line_length / code_block_line_length are the counts for lines in headings / code blocks, `headings` /
# `code_blocks` say whether the rule triggers there at all; "if there are no whitespace characters [beyond the count], then
# this rule will not trigger"; `strict` "forces this rule to trigger if any character is present past the specified line
# length"; `stern` allows "lines without any spaces past the specified line length while triggering on lines that are too long".
M13 = "pymarkdown/plugins/rule_md_013.py::RuleMd013."
_R["$fields"].types.update({f"RuleMd013._RuleMd013__{f}": "int" for f in
                            ("line_length", "code_block_line_length", "heading_line_length", "minimum_line_length", "line_index", "leaf_token_index")})
_R["$fields"].types.update({f"RuleMd013._RuleMd013__{f}": "bool" for f in ("code_blocks_active", "headings_active", "strict_mode", "stern_mode")})
_R["$fields"].types.update({"RuleMd013._RuleMd013__leaf_tokens": "List[MarkdownToken]"})

GET_INT = Assumed("ApplicationPropertiesFacade.get_integer_property[validated >= 1]", params=["property_name", "default_value", "valid_value_fn"],
                  returns="int", pure=True, ensures=["result >= 1"], raises=[Raises("ValueError")],
                  why="typed getter of application_properties: the stored integer or the default (80), after valid_value_fn "
                      "(RuleMd013.__validate_minimum: ValueError for values < 1) accepted it")
GET_BOOL = Assumed("ApplicationPropertiesFacade.get_boolean_property", params=["property_name", "default_value"], returns="bool", pure=True,
                   raises=[Raises("ValueError")], why="typed getter of application_properties: the stored boolean or the default")
# the quick-reject threshold never exceeds any of the three limits: a line that is too long for its element kind always
# gets past `line_length > minimum`
INV13 = ("1 <= self.__minimum_line_length and self.__minimum_line_length <= self.__line_length and "
         "self.__minimum_line_length <= self.__code_block_line_length and self.__minimum_line_length <= self.__heading_line_length")
register(Contract(
    key=M13 + "initialize_from_config", properties=P + ["C17"],
    calls={"self.plugin_configuration.get_integer_property": GET_INT, "self.plugin_configuration.get_boolean_property": GET_BOOL},
    requires=["self._RulePlugin__plugin_specific_facade is not None"],
    ensures=[INV13],
    raises=[Raises("ValueError")],
    modifies=["self.__line_length", "self.__code_block_line_length", "self.__heading_line_length", "self.__minimum_line_length",
              "self.__code_blocks_active", "self.__headings_active", "self.__strict_mode", "self.__stern_mode"],
))

LT = "self.__leaf_tokens"
IDX = (f"(old(self.__leaf_token_index) + 1 if (old(self.__leaf_token_index) + 1 < len({LT}) and "
       f"old(self.__line_index) == {LT}[old(self.__leaf_token_index) + 1].line_number) else old(self.__leaf_token_index))")
K = f"{LT}[{IDX}]"
LIMIT = (f"((self.__code_block_line_length if self.__code_blocks_active else 99999) if ({K}.is_fenced_code_block or {K}.is_indented_code_block) "
         f"else ((self.__heading_line_length if self.__headings_active else 99999) if ({K}.is_atx_heading or {K}.is_setext_heading) "
         f"else self.__line_length))")
WS_BEYOND = f"exists(lambda k: is_ws(line, k), {LIMIT}, len(line))"
REPORTED = "(len(g_reports) == old(len(g_reports)) + 1)"
register(Contract(
    key=M13 + "next_line", properties=P,
    ghost={"g_reports": "List[Any]"},
    calls={"self.report_next_line_error": RPK + "report_next_line_error",
           "ParserHelper.extract_until_spaces": "pymarkdown/general/parser_helper.py::ParserHelper.extract_until_spaces"},
    requires=[INV13, f"0 <= self.__leaf_token_index < len({LT})", "len(line) < 99999"],
    ensures=[
        f"{REPORTED} or len(g_reports) == old(len(g_reports))",
        # default and strict mode: exactly the documented condition
        f"implies(self.__strict_mode, {REPORTED} == (len(line) > {LIMIT}))",
        f"implies(not self.__strict_mode and not self.__stern_mode, {REPORTED} == (len(line) > {LIMIT} and {WS_BEYOND}))",
        # stern mode: lines without whitespace past the limit are allowed, other too-long lines trigger
        f"implies(not self.__strict_mode and self.__stern_mode and not ({WS_BEYOND}), not {REPORTED})",
        f"implies(not self.__strict_mode and self.__stern_mode and len(line) > {LIMIT} and {WS_BEYOND}, {REPORTED})",
        "self.__line_index == old(self.__line_index) + 1",
    ],
    raises=[Raises("BadPluginError")],
    modifies=["self.__leaf_token_index", "self.__line_index", "g_reports.$list"],
))
