"""C06 -- rules whose step function is small enough to be specified against the documented trigger condition."""
from pyvc.spec import Assumed, Contract, Loop, Raises, register
from pyvc.spec import REGISTRY as _R
from pyvc.spec import spec_fn as _spec_fn
from pyvc.sym import V as _V, fresh as _fresh, sat as _sat, vbool as _vbool
import z3 as _z3

P = ["C06"]
RPK = "pymarkdown/plugin_manager/rule_plugin.py::RulePlugin."

# ------------------------------------------------------------------------------------------------------------ MD013
# newdocs/src/plugins/rule_md013.md: "This rule triggers if the length of any line exceeds a given character count";
# heading_line_length / code_block_line_length are the counts for lines in headings / code blocks, `headings` /
# `code_blocks` say whether the rule triggers there at all; "if there are no whitespace characters [beyond the count], then
# this rule will not trigger"; `strict` "forces this rule to trigger if any character is present past the specified line
# length"; `stern` allows "lines without any spaces past the specified line length while triggering on lines that are too long".
M13 = "pymarkdown/plugins/rule_md_013.py::RuleMd013."
_R["$fields"].types.update({f"RuleMd013._RuleMd013__{f}": "int" for f in
                            ("line_length", "code_block_line_length", "heading_line_length", "minimum_line_length", "line_index", "leaf_token_index")})
_R["$fields"].types.update({f"RuleMd013._RuleMd013__{f}": "bool" for f in ("code_blocks_active", "headings_active", "strict_mode", "stern_mode")})
_R["$fields"].types.update({"RuleMd013._RuleMd013__leaf_tokens": "List[MarkdownToken]"})

GET_INT = Assumed("ApplicationPropertiesFacade.get_integer_property[validated >= 1]", params=["property_name", "default_value", "valid_value_fn"],
                  returns="int", pure=True, ensures=["result >= 1"], raises=[Raises("ValueError")],
                  why="typed getter of application_properties: the stored integer or the default (80), after valid_value_fn "
                      "(RuleMd013.__validate_minimum: ValueError for values < 1) accepted it")
GET_BOOL = Assumed("ApplicationPropertiesFacade.get_boolean_property", params=["property_name", "default_value"], returns="bool", pure=True,
                   raises=[Raises("ValueError")], why="typed getter of application_properties: the stored boolean or the default")
# the quick-reject threshold never exceeds any of the three limits: a line that is too long for its element kind always
# gets past `line_length > minimum`
INV13 = ("1 <= self.__minimum_line_length and self.__minimum_line_length <= self.__line_length and "
         "self.__minimum_line_length <= self.__code_block_line_length and self.__minimum_line_length <= self.__heading_line_length")
register(Contract(
    key=M13 + "initialize_from_config", properties=P + ["C17"],
    calls={"self.plugin_configuration.get_integer_property": GET_INT, "self.plugin_configuration.get_boolean_property": GET_BOOL},
    requires=["self._RulePlugin__plugin_specific_facade is not None"],
    ensures=[INV13],
    raises=[Raises("ValueError")],
    modifies=["self.__line_length", "self.__code_block_line_length", "self.__heading_line_length", "self.__minimum_line_length",
              "self.__code_blocks_active", "self.__headings_active", "self.__strict_mode", "self.__stern_mode"],
))

LT = "self.__leaf_tokens"
IDX = (f"(old(self.__leaf_token_index) + 1 if (old(self.__leaf_token_index) + 1 < len({LT}) and "
       f"old(self.__line_index) == {LT}[old(self.__leaf_token_index) + 1].line_number) else old(self.__leaf_token_index))")
K = f"{LT}[{IDX}]"
LIMIT = (f"((self.__code_block_line_length if self.__code_blocks_active else 99999) if ({K}.is_fenced_code_block or {K}.is_indented_code_block) "
         f"else ((self.__heading_line_length if self.__headings_active else 99999) if ({K}.is_atx_heading or {K}.is_setext_heading) "
         f"else self.__line_length))")
WS_BEYOND = f"exists(lambda k: is_ws(line, k), {LIMIT}, len(line))"
REPORTED = "(len(g_reports) == old(len(g_reports)) + 1)"
register(Contract(
    key=M13 + "next_line", properties=P,
    ghost={"g_reports": "List[Any]"},
    calls={"self.report_next_line_error": RPK + "report_next_line_error",
           "ParserHelper.extract_until_spaces": "pymarkdown/general/parser_helper.py::ParserHelper.extract_until_spaces"},
    requires=[INV13, f"0 <= self.__leaf_token_index < len({LT})", "len(line) < 99999"],
    ensures=[
        f"{REPORTED} or len(g_reports) == old(len(g_reports))",
        # default and strict mode: exactly the documented condition
        f"implies(self.__strict_mode, {REPORTED} == (len(line) > {LIMIT}))",
        f"implies(not self.__strict_mode and not self.__stern_mode, {REPORTED} == (len(line) > {LIMIT} and {WS_BEYOND}))",
        # stern mode: lines without whitespace past the limit are allowed, other too-long lines trigger
        f"implies(not self.__strict_mode and self.__stern_mode and not ({WS_BEYOND}), not {REPORTED})",
        f"implies(not self.__strict_mode and self.__stern_mode and len(line) > {LIMIT} and {WS_BEYOND}, {REPORTED})",
        "self.__line_index == old(self.__line_index) + 1",
        # C07: the report is for the line being delivered, column 1 -- a position that exists in the file
        f"implies({REPORTED}, g_reports[len(g_reports) - 1][1] == context.line_number and g_reports[len(g_reports) - 1][2] == 1)",
    ],
    raises=[Raises("BadPluginError")],
    modifies=["self.__leaf_token_index", "self.__line_index", "g_reports.$list"],
))

# ------------------------------------------------------------------------------------------------------------ MD047
# newdocs/src/plugins/rule_md047.md: "This rule triggers when the document does not end with a single newline character",
# including "a final line that has a newline character followed by one or more whitespace characters".  By the contract of
# FileSourceProvider (C14) the last line delivered to the rules is '' exactly when the text ends with a newline, so the
# documented condition is: the last line the rule saw is not empty.  Reported once, at the end of that line.
M47 = "pymarkdown/plugins/rule_md_047.py::RuleMd047."
_R["$fields"].types.update({"RuleMd047._RuleMd047__last_line": "str"})
register(Contract(key=M47 + "starting_new_file", properties=P + ["C13"], ensures=["self.__last_line == ''"], modifies=["self.__last_line"]))
register(Contract(key=M47 + "next_line", properties=P, ensures=["self.__last_line is line"], modifies=["self.__last_line"]))
SETFIX = Assumed("PluginScanContext.set_current_fix_line[recorded]", params=["line"], pure=True, raises=[Raises("BadPluginFixError")],
                 effects=["g_fixline.append(line)"], why="PluginScanContext.set_current_fix_line: replaces the line written by the line pass (C09/C10)")
register(Contract(
    key=M47 + "completed_file", properties=P,
    ghost={"g_reports": "List[Any]", "g_fixline": "List[Any]"},
    calls={"self.report_next_line_error": RPK + "report_next_line_error", "context.set_current_fix_line": SETFIX},
    ensures=[
        "implies(not context.in_fix_mode, len(g_reports) == old(len(g_reports)) + (1 if len(self.__last_line) > 0 else 0))",
        "implies(not context.in_fix_mode and len(self.__last_line) > 0, g_reports[len(g_reports) - 1][1] == context.line_number - 1 "
        "and g_reports[len(g_reports) - 1][2] == len(self.__last_line))",
        "implies(context.in_fix_mode, len(g_reports) == old(len(g_reports)))",
        # the fix appends exactly one newline, and only when the last line written does not already end with one
        "implies(context.in_fix_mode, len(g_fixline) == old(len(g_fixline)) + "
        "(1 if (context.last_line_fixed is not None and not context.last_line_fixed.endswith('\\n')) else 0))",
        "implies(len(g_fixline) > old(len(g_fixline)), g_fixline[len(g_fixline) - 1] == '\\n')",
    ],
    raises=[Raises("BadPluginError"), Raises("BadPluginFixError")],
    modifies=["g_reports.$list", "g_fixline.$list"],
))

# ------------------------------------------------------------------------------------------------------------ MD001
# newdocs/src/plugins/rule_md001.md: "This rule triggers when a heading level is increased by more than one level"; a front-matter
# item named by `front_matter_title` counts as the document's level 1 heading.  Spec automaton: state L = level of the previous
# heading (0: none yet); a heading of level h is reported iff L > 0 and h > L + 1; then L := h.  In fix mode the heading is
# rewritten to level L + 1 instead (the only field the rule edits: hash_count) and L := L + 1.
M01 = "pymarkdown/plugins/rule_md_001.py::RuleMd001."
_R["$fields"].types.update({"RuleMd001._RuleMd001__last_heading_count": "int", "RuleMd001._RuleMd001__front_matter_title": "str",
                            "SetextHeadingMarkdownToken._SetextHeadingMarkdownToken__hash_count": "int",
                            "FrontMatterMarkdownToken._FrontMatterMarkdownToken__matter_map": "Dict[str, str]",
                            # the specification reads the map through `token`, which it types as a heading token (as the rule's cast does)
                            "SetextHeadingMarkdownToken._FrontMatterMarkdownToken__matter_map": "Dict[str, str]"})
FIXREQ = Assumed("RulePlugin.register_fix_token_request[recorded]", params=["context", "token", "plugin_action", "field_name", "field_value"],
                 pure=True, raises=[Raises("BadPluginFixError")], effects=["g_fixreq.append((token, field_name, field_value))"],
                 why="RulePlugin.register_fix_token_request -> PluginScanContext.register_fix_token_request: queues the request (C08 covers what may be requested)")
HEAD = "(token.is_atx_heading or token.is_setext_heading)"
TITLE_FM = "(not " + HEAD + " and token.is_front_matter and self.__front_matter_title in token._FrontMatterMarkdownToken__matter_map)"
H = f"(token.hash_count if {HEAD} else (1 if {TITLE_FM} else 0))"
L0 = "old(self.__last_heading_count)"
SKIP = f"({H} > 0 and {L0} > 0 and {H} > {L0} + 1)"
register(Contract(key=M01 + "starting_new_file", properties=P + ["C13"], ensures=["self.__last_heading_count == 0"], modifies=["self.__last_heading_count"]))
register(Contract(
    key=M01 + "next_token", properties=P + ["C09"],
    ghost={"g_reports": "List[Any]", "g_fixreq": "List[Any]"},
    types={"token": "SetextHeadingMarkdownToken"},
    calls={"self.report_next_token_error": RPK + "report_next_token_error", "self.register_fix_token_request": FIXREQ},
    requires=["self.__last_heading_count >= 0", f"implies({HEAD}, 1 <= token.hash_count and token.hash_count <= 6)",
              "has_type(token.line_number, 'int') and has_type(token.column_number, 'int')"],
    ensures=[
        f"implies(not context.in_fix_mode, len(g_reports) == old(len(g_reports)) + (1 if {SKIP} else 0))",
        f"implies(not context.in_fix_mode and {SKIP}, g_reports[len(g_reports) - 1][1] == token.line_number and g_reports[len(g_reports) - 1][2] == token.column_number)",
        f"implies(not context.in_fix_mode, self.__last_heading_count == ({H} if {H} > 0 else {L0}))",
        "implies(not context.in_fix_mode, len(g_fixreq) == old(len(g_fixreq)))",
        # fix mode: the heading is pulled up to exactly one level below its predecessor, nothing is reported
        "implies(context.in_fix_mode, len(g_reports) == old(len(g_reports)))",
        f"implies(context.in_fix_mode, len(g_fixreq) == old(len(g_fixreq)) + (1 if {SKIP} else 0))",
        f"implies(context.in_fix_mode and {SKIP}, g_fixreq[len(g_fixreq) - 1] == (token, 'hash_count', {L0} + 1))",
        f"implies(context.in_fix_mode, self.__last_heading_count == (({L0} + 1) if {SKIP} else ({H} if {H} > 0 else {L0})))",
    ],
    raises=[Raises("BadPluginError"), Raises("BadPluginFixError")],
    modifies=["self.__last_heading_count", "g_reports.$list", "g_fixreq.$list"],
))

# ------------------------------------------------------------------------------------------------------------ MD048
# newdocs/src/plugins/rule_md048.md: the fence style of every fenced code block must be the configured one (`backtick` / `tilde`) or,
# for `consistent`, the style of the first fenced code block of the document.  Spec automaton: state E = expected style ('' = not
# yet known); a fence of style c: E' = E if E != '' else c; reported iff E' != c.  In fix mode the fence character is rewritten.
M48 = "pymarkdown/plugins/rule_md_048.py::RuleMd048."
_R["$fields"].types.update({"RuleMd048._RuleMd048__style_type": "str", "RuleMd048._RuleMd048__actual_style_type": "str",
                            "FencedCodeBlockMarkdownToken._FencedCodeBlockMarkdownToken__fence_character": "str"})
A48 = "self.__actual_style_type"
CUR = "('backtick' if token.fence_character == '`' else 'tilde')"
EXP = f"(old({A48}) if old({A48}) != '' else {CUR})"
register(Contract(
    key=M48 + "starting_new_file", properties=P + ["C13"],
    ensures=[f"{A48} == (self.__style_type if self.__style_type != 'consistent' else '')"], modifies=[A48]))
register(Contract(
    key=M48 + "next_token", properties=P + ["C09"],
    ghost={"g_reports": "List[Any]", "g_fixreq": "List[Any]"},
    types={"token": "FencedCodeBlockMarkdownToken"},
    calls={"self.report_next_token_error": RPK + "report_next_token_error", "self.register_fix_token_request": FIXREQ},
    requires=[f"{A48} == '' or {A48} == 'backtick' or {A48} == 'tilde'", "len(token.fence_character) == 1",
              "has_type(token.line_number, 'int') and has_type(token.column_number, 'int')"],
    ensures=[
        f"implies(not token.is_fenced_code_block, {A48} == old({A48}) and len(g_reports) == old(len(g_reports)) and len(g_fixreq) == old(len(g_fixreq)))",
        f"implies(token.is_fenced_code_block, {A48} == {EXP})",
        f"implies(token.is_fenced_code_block and not context.in_fix_mode, len(g_reports) == old(len(g_reports)) + (1 if {EXP} != {CUR} else 0) "
        f"and len(g_fixreq) == old(len(g_fixreq)))",
        f"implies(token.is_fenced_code_block and not context.in_fix_mode and {EXP} != {CUR}, "
        f"g_reports[len(g_reports) - 1][1] == token.line_number and g_reports[len(g_reports) - 1][2] == token.column_number)",
        f"implies(token.is_fenced_code_block and context.in_fix_mode, len(g_fixreq) == old(len(g_fixreq)) + (1 if {EXP} != {CUR} else 0) "
        f"and len(g_reports) == old(len(g_reports)))",
        f"implies(token.is_fenced_code_block and context.in_fix_mode and {EXP} != {CUR}, "
        f"g_fixreq[len(g_fixreq) - 1] == (token, 'fence_character', ('`' if {EXP} == 'backtick' else '~')))",
    ],
    raises=[Raises("BadPluginError"), Raises("BadPluginFixError")],
    modifies=[A48, "g_reports.$list", "g_fixreq.$list"],
))

# ------------------------------------------------------------------------------------------------------------ MD025
# newdocs/src/plugins/rule_md025.md: "This rule triggers when there are multiple top-level headings" (level = `level`, default 1;
# a front-matter item named by `front_matter_title` counts as one).  Spec automaton: state T = a top-level heading was seen;
# a heading of the configured level is reported iff T already holds; then T := True.  Other headings and tokens change nothing.
M25 = "pymarkdown/plugins/rule_md_025.py::RuleMd025."
_R["$fields"].types.update({"RuleMd025._RuleMd025__level": "int", "RuleMd025._RuleMd025__have_top_level": "bool", "RuleMd025._RuleMd025__front_matter_title": "str",
                            "AtxHeadingMarkdownToken._AtxHeadingMarkdownToken__hash_count": "int",
                            "AtxHeadingMarkdownToken._FrontMatterMarkdownToken__matter_map": "Dict[str, str]"})
TOP = "(" + HEAD + " and token.hash_count == self.__level)"
FM25 = "(not " + HEAD + " and token.is_front_matter and self.__front_matter_title in token._FrontMatterMarkdownToken__matter_map)"
register(Contract(key=M25 + "starting_new_file", properties=P + ["C13"], ensures=["self.__have_top_level == False"], modifies=["self.__have_top_level"]))
register(Contract(
    key=M25 + "next_token", properties=P,
    ghost={"g_reports": "List[Any]"},
    types={"token": "AtxHeadingMarkdownToken"},
    calls={"self.report_next_token_error": RPK + "report_next_token_error"},
    requires=["has_type(token.line_number, 'int') and has_type(token.column_number, 'int')"],
    ensures=[
        f"len(g_reports) == old(len(g_reports)) + (1 if ({TOP} and old(self.__have_top_level)) else 0)",
        f"implies({TOP} and old(self.__have_top_level), g_reports[len(g_reports) - 1][1] == token.line_number and g_reports[len(g_reports) - 1][2] == token.column_number)",
        f"self.__have_top_level == (old(self.__have_top_level) or {TOP} or {FM25})",
    ],
    raises=[Raises("BadPluginError")],
    modifies=["self.__have_top_level", "g_reports.$list"],
))

# ------------------------------------------------------------------------------------------------------------ MD035
# newdocs/src/plugins/rule_md035.md: every thematic break must be written as the configured text or, for `consistent`, as the first
# thematic break of the document.  Spec automaton: state E = expected text ('' = not yet known); a break written b: if E == '' then
# E := b (no report) else reported iff E != b.  In fix mode the break is rewritten to E (start_character = E[0], rest_of_line = E).
M35 = "pymarkdown/plugins/rule_md_035.py::RuleMd035."
_R["$fields"].types.update({"RuleMd035._RuleMd035__rule_style": "str", "RuleMd035._RuleMd035__actual_style": "str",
                            "ThematicBreakMarkdownToken._ThematicBreakMarkdownToken__rest_of_line": "str"})
A35 = "self.__actual_style"
BAD35 = f"(token.is_thematic_break and old({A35}) != '' and old({A35}) != token.rest_of_line)"
register(Contract(
    key=M35 + "starting_new_file", properties=P + ["C13"],
    ensures=[f"implies(self.__rule_style == 'consistent', {A35} == '')", f"implies(self.__rule_style != 'consistent', {A35} is old({A35}))"], modifies=[A35]))
register(Contract(
    key=M35 + "next_token", properties=P + ["C09"],
    ghost={"g_reports": "List[Any]", "g_fixreq": "List[Any]"},
    types={"token": "ThematicBreakMarkdownToken"},
    calls={"self.report_next_token_error": RPK + "report_next_token_error", "self.register_fix_token_request": FIXREQ},
    requires=["has_type(token.line_number, 'int') and has_type(token.column_number, 'int')"],
    ensures=[
        f"{A35} is (token.rest_of_line if (token.is_thematic_break and old({A35}) == '') else old({A35}))",
        f"implies(not context.in_fix_mode, len(g_reports) == old(len(g_reports)) + (1 if {BAD35} else 0) and len(g_fixreq) == old(len(g_fixreq)))",
        f"implies(not context.in_fix_mode and {BAD35}, g_reports[len(g_reports) - 1][1] == token.line_number and g_reports[len(g_reports) - 1][2] == token.column_number)",
        f"implies(context.in_fix_mode, len(g_reports) == old(len(g_reports)) and len(g_fixreq) == old(len(g_fixreq)) + (2 if {BAD35} else 0))",
        f"implies(context.in_fix_mode and {BAD35}, g_fixreq[len(g_fixreq) - 1] == (token, 'rest_of_line', old({A35})) and "
        f"g_fixreq[len(g_fixreq) - 2][0] is token and g_fixreq[len(g_fixreq) - 2][1] == 'start_character')",
    ],
    raises=[Raises("BadPluginError"), Raises("BadPluginFixError")],
    modifies=[A35, "g_reports.$list", "g_fixreq.$list"],
))

# ------------------------------------------------------------------------------------------------------------ MD041
# newdocs/src/plugins/rule_md041.md: "This rule is triggered when the first element in the document is not a top-level or h1
# heading".  Under contract here: once the first element has been judged nothing more is reported; a heading as first element is
# reported iff its level differs from `level`; and (C07) whatever is reported is reported at a position that exists (line >= 1,
# column >= 1) -- given that every token other than an end token or the end-of-stream token carries such a position.
M41 = "pymarkdown/plugins/rule_md_041.py::RuleMd041."
_R["$fields"].types.update({"RuleMd041._RuleMd041__start_level": "int", "RuleMd041._RuleMd041__have_seen_first_token": "bool",
                            "RuleMd041._RuleMd041__front_matter_title": "str", "RuleMd041._RuleMd041__seen_html_block_start": "Optional[MarkdownToken]",
                            "TextMarkdownToken._TextMarkdownToken__token_text": "str"})
POSOK = "({t}.line_number >= 1 and {t}.column_number >= 1)"
SEEN = "self.__seen_html_block_start"
register(Contract(
    key=M41 + "next_token", properties=P + ["C07"],
    ghost={"g_reports": "List[Any]"},
    types={"token": "AtxHeadingMarkdownToken"},
    calls={"self.report_next_token_error": RPK + "report_next_token_error"},
    requires=["has_type(token.line_number, 'int') and has_type(token.column_number, 'int')",
              f"implies(not token.is_end_token and not token.is_end_of_stream, {POSOK.format(t='token')})",
              "implies(token.is_end_of_stream, token.column_number == 0)",
              # a document does not start with an end token -- except the end-of-stream token of a document without content
              # (whose name, 'end-of-stream', also makes is_end_token true)
              "implies(not self.__have_seen_first_token, not token.is_end_token or token.is_end_of_stream)",
              f"implies({SEEN} is not None, has_type({SEEN}.line_number, 'int') and has_type({SEEN}.column_number, 'int') and {POSOK.format(t=SEEN)})"],
    ensures=[
        "implies(old(self.__have_seen_first_token), len(g_reports) == old(len(g_reports)) and self.__have_seen_first_token)",
        f"implies(not old(self.__have_seen_first_token) and {HEAD}, self.__have_seen_first_token and "
        "len(g_reports) == old(len(g_reports)) + (1 if token.hash_count != self.__start_level else 0))",
        "len(g_reports) == old(len(g_reports)) or len(g_reports) == old(len(g_reports)) + 1",
        # C07: a reported position exists in the file
        "implies(len(g_reports) > old(len(g_reports)), g_reports[len(g_reports) - 1][1] >= 1 and g_reports[len(g_reports) - 1][2] >= 1)",
    ],
    raises=[Raises("BadPluginError"), Raises("AssertionError")],
    modifies=["self.__have_seen_first_token", SEEN, "g_reports.$list"],
))

# ------------------------------------------------------------------------------------------------------------ MD004
# newdocs/src/plugins/rule_md004.md: the marker of every unordered list must be the configured one (asterisk / plus / dash), or,
# for `consistent`, the marker of the first unordered list of the document, or, for `sublist`, the marker first used at that
# nesting level.  Spec automaton: state = (level, expected[level -> style]); a list start with marker style c at level l:
# E = expected[l] if known, else (c if style is sublist, or consistent with nothing known yet, else expected[0]); expected[l] := E;
# reported iff E != c; level := l + 1.  A list end: level := l - 1.  In fix mode the marker is rewritten to E's character.
M04 = "pymarkdown/plugins/rule_md_004.py::RuleMd004."
_R["$fields"].types.update({"RuleMd004._RuleMd004__style_type": "str", "RuleMd004._RuleMd004__actual_style_type": "Dict[int, str]",
                            "RuleMd004._RuleMd004__current_list_level": "int",
                            "UnorderedListStartMarkdownToken._ListStartMarkdownToken__list_start_sequence": "str"})
D4 = "self.__actual_style_type"
LV = "old(self.__current_list_level)"
SEQ = "token.list_start_sequence"
C4 = f"('asterisk' if {SEQ} == '*' else ('plus' if {SEQ} == '+' else 'dash'))"
LEARN = "(self.__style_type == 'sublist' or (self.__style_type == 'consistent' and old(len(self.__actual_style_type)) == 0))"
E4 = f"(old({D4}[now({LV})]) if old(now({LV}) in {D4}) else ({C4} if {LEARN} else old({D4}[0])))"
START = "token.is_unordered_list_start"
register(Contract(
    key=M04 + "starting_new_file", properties=P + ["C13"],
    ensures=["self.__current_list_level == 0",
             f"implies(self.__style_type == 'consistent' or self.__style_type == 'sublist', len({D4}) == 0)",
             f"implies(self.__style_type != 'consistent' and self.__style_type != 'sublist', 0 in {D4} and {D4}[0] is self.__style_type)",
             f"is_fresh({D4})"],
    modifies=[D4, "self.__current_list_level"]))
register(Contract(
    key=M04 + "next_token", properties=P + ["C09"],
    ghost={"g_reports": "List[Any]", "g_fixreq": "List[Any]"},
    types={"token": "UnorderedListStartMarkdownToken"},
    calls={"self.report_next_token_error": RPK + "report_next_token_error", "self.register_fix_token_request": FIXREQ},
    requires=["has_type(token.line_number, 'int') and has_type(token.column_number, 'int')",
              f"implies({START}, {SEQ} == '*' or {SEQ} == '+' or {SEQ} == '-')",
              f"set_wf({D4})", f"implies(len({D4}) > 0, 0 in {D4})",       # the first list of a document is met at level 0
              f"implies(self.__style_type != 'consistent' and self.__style_type != 'sublist', 0 in {D4})",     # starting_new_file
              "self.__style_type == 'consistent' or self.__style_type == 'sublist' or self.__style_type == 'asterisk' or "
              "self.__style_type == 'plus' or self.__style_type == 'dash'"],
    ensures=[
        f"implies({START}, self.__current_list_level == {LV} + 1 and {LV} in {D4} and {D4}[{LV}] == {E4})",
        f"implies({START}, forall(lambda k: implies(k != {LV}, (k in {D4}) == old(k in {D4}) and implies(k in {D4}, {D4}[k] is old({D4}[k])))))",
        f"implies(not {START} and token.is_unordered_list_end, self.__current_list_level == {LV} - 1)",
        f"implies(not {START} and not token.is_unordered_list_end, self.__current_list_level == {LV})",
        f"implies(not {START}, forall(lambda k: (k in {D4}) == old(k in {D4}) and implies(k in {D4}, {D4}[k] is old({D4}[k]))) "
        "and len(g_reports) == old(len(g_reports)) and len(g_fixreq) == old(len(g_fixreq)))",
        f"implies({START} and not context.in_fix_mode, len(g_reports) == old(len(g_reports)) + (1 if {E4} != {C4} else 0) and len(g_fixreq) == old(len(g_fixreq)))",
        f"implies({START} and not context.in_fix_mode and {E4} != {C4}, g_reports[len(g_reports) - 1][1] == token.line_number and "
        "g_reports[len(g_reports) - 1][2] == token.column_number)",
        f"implies({START} and context.in_fix_mode, len(g_fixreq) == old(len(g_fixreq)) + (1 if {E4} != {C4} else 0) and len(g_reports) == old(len(g_reports)))",
        f"implies({START} and context.in_fix_mode and {E4} != {C4}, g_fixreq[len(g_fixreq) - 1] == "
        f"(token, 'list_start_sequence', ('+' if {E4} == 'plus' else ('-' if {E4} == 'dash' else '*'))))",
    ],
    raises=[Raises("BadPluginError"), Raises("BadPluginFixError")],
    modifies=[f"{D4}.$dict", "self.__current_list_level", "g_reports.$list", "g_fixreq.$list"],
))

# ------------------------------------------------------------------------------------------------------------ MD046
# newdocs/src/plugins/rule_md046.md: every code block must be of the configured style (fenced / indented) or, for `consistent`, of the
# style of the first code block of the document.  Scan mode only is specified here (the fix replaces token ranges, C08): state E =
# expected style ('' = not yet known); a code block of style c: E' = E if E != '' else c; reported iff E' != c, at the block's position.
M46 = "pymarkdown/plugins/rule_md_046.py::RuleMd046."
_R["$fields"].types.update({"RuleMd046._RuleMd046__style_type": "str", "RuleMd046._RuleMd046__actual_style_type": "str",
                            "RuleMd046._RuleMd046__start_fix_token": "Optional[MarkdownToken]", "RuleMd046._RuleMd046__last_token": "Optional[MarkdownToken]"})
A46 = "self.__actual_style_type"
CUR46 = "('fenced' if token.is_fenced_code_block else 'indented')"
EXP46 = f"(old({A46}) if old({A46}) != '' else {CUR46})"
register(Contract(
    key=M46 + "starting_new_file", properties=P + ["C13"],
    ensures=[f"{A46} == (self.__style_type if self.__style_type != 'consistent' else '')", "self.__last_token is None",
             "self.__start_fix_token is None"],
    modifies=[A46, "self.__last_token", "self.__start_fix_token", "self.__inner_fix_token"]))
register(Contract(
    key=M46 + "next_token", properties=P,
    ghost={"g_reports": "List[Any]"},
    calls={"self.report_next_token_error": RPK + "report_next_token_error"},
    requires=["not context.in_fix_mode", "self.__start_fix_token is None",          # scan mode: no fix is ever started
              "has_type(token.line_number, 'int') and has_type(token.column_number, 'int')"],
    ensures=[
        "self.__last_token is token", "self.__start_fix_token is None",
        f"implies(not token.is_code_block, {A46} == old({A46}) and len(g_reports) == old(len(g_reports)))",
        f"implies(token.is_code_block, {A46} == {EXP46} and len(g_reports) == old(len(g_reports)) + (1 if {EXP46} != {CUR46} else 0))",
        f"implies(token.is_code_block and {EXP46} != {CUR46}, g_reports[len(g_reports) - 1][1] == token.line_number and "
        "g_reports[len(g_reports) - 1][2] == token.column_number)",
    ],
    raises=[Raises("BadPluginError")],
    modifies=[A46, "self.__last_token", "g_reports.$list"],
))

# ------------------------------------------------------------------------------------------------------------ MD040 / MD042 / MD045
# Three one-step rules.  `str.strip(chars)` is an uninterpreted function of (string, chars) in the encoding (length facts only), so
# what is proved is: the report is made exactly when the DOCUMENTED field, stripped of the DOCUMENTED character class, is empty
# (or, MD042, is '#'), for exactly the documented token kinds, once, at the token's own position.  That stripping by `chars` removes
# exactly the characters of `chars` from both ends is Python's semantics of str.strip (trusted base).
# rule_md040.md: "This rule is triggered when a fenced code block is used, but a language is not specified" (the info string).
# rule_md042.md: "triggered when ... an inline link [or image] has an empty link URI" -- empty, only whitespace, or only '#'.
# rule_md045.md: "This rule is triggered when an image is present that lacks any alternate text" (whitespace-only counts as none).
_R["$fields"].types.update({"FencedCodeBlockMarkdownToken._FencedCodeBlockMarkdownToken__extracted_text": "str",
                            "ReferenceMarkdownToken._ReferenceMarkdownToken__link_uri": "str",
                            "ReferenceMarkdownToken._ReferenceMarkdownToken__pre_link_uri": "Optional[str]",
                            "ReferenceMarkdownToken._ReferenceMarkdownToken__text_from_blocks": "str"})
ONE = "len(g_reports) == old(len(g_reports)) + (1 if {c} else 0)"
AT = "implies({c}, g_reports[len(g_reports) - 1][1] == token.line_number and g_reports[len(g_reports) - 1][2] == token.column_number)"
def _one_step(mod, cls, tok_type, cond):
    register(Contract(
        key=f"pymarkdown/plugins/{mod}.py::{cls}.next_token", properties=P + ["C07"],
        ghost={"g_reports": "List[Any]"}, types={"token": tok_type},
        calls={"self.report_next_token_error": RPK + "report_next_token_error"},
        requires=["has_type(token.line_number, 'int') and has_type(token.column_number, 'int')"],
        ensures=[ONE.format(c=cond), AT.format(c=cond)],
        raises=[Raises("BadPluginError")], modifies=["g_reports.$list"]))
_one_step("rule_md_040", "RuleMd040", "FencedCodeBlockMarkdownToken",
          "(token.is_fenced_code_block and len(token.extracted_text.strip(Constants.ascii_whitespace)) == 0)")
_PRE = "token._ReferenceMarkdownToken__pre_link_uri"       # active_link_uri: the pre-processed URI if there is a non-empty one
_W = ".strip(Constants.ascii_whitespace)"
_URI = f"({_PRE}{_W} if ({_PRE} is not None and len({_PRE}) > 0) else token._ReferenceMarkdownToken__link_uri{_W})"
_one_step("rule_md_042", "RuleMd042", "LinkStartMarkdownToken",
          f"((token.is_inline_link or token.is_inline_image) and (len({_URI}) == 0 or {_URI} == '#'))")
_one_step("rule_md_045", "RuleMd045", "ImageStartMarkdownToken",
          "(token.is_inline_image and len(token.text_from_blocks.strip(Constants.unicode_whitespace.value())) == 0)")

# ------------------------------------------------------------------------------------------------------------ MD038
# rule_md038.md: "triggered when an inline code span has unnecessary spaces at its start or end" -- a single space next to a backtick
# of the content is necessary and is left alone.  C08: `span_text` is the CONTENT of the code span, so what the fix may ask for is
# pinned down character for character: the requested text is the old text without its first character (if that is the unnecessary
# leading space) and without its last character (if that is the unnecessary trailing space) -- nothing else is dropped, so a backtick
# of the content can never end up next to the fence (seeded change C08-C: `lstrip(' ')` / `rstrip(' ')` instead of `[1:]` / `[:-1]`).
M38 = "pymarkdown/plugins/rule_md_038.py::RuleMd038."


@_spec_fn("same_chars")
def _same_chars(ex, st, args):
    """same_chars(new, old, shift, n): new[k] == old[k + shift] for every 0 <= k < n"""
    new, old, shift, n = args
    k = _fresh("k", _z3.IntSort())
    return _vbool(_z3.ForAll([k], _z3.Implies(_z3.And(0 <= k, k < _V.i(n.z)), _sat(_V.s(new.z), k) == _sat(_V.s(old.z), k + _V.i(shift.z)))))


_R["$fields"].types.update({"InlineCodeSpanMarkdownToken._InlineCodeSpanMarkdownToken__span_text": "str"})
S38 = "token._InlineCodeSpanMarkdownToken__span_text"
LEAD38 = f"({S38}[0] == ' ' and (len({S38}) == 1 or {S38}[1] != '`'))"
TRAIL38 = f"(len({S38}) > 1 and {S38}[len({S38}) - 1] == ' ' and {S38}[len({S38}) - 2] != '`')"
TRIG38 = f"(token.is_inline_code_span and ({LEAD38} or {TRAIL38}))"
A38 = f"(1 if {LEAD38} else 0)"
B38 = f"(1 if {TRAIL38} else 0)"
NEW38 = "g_fixreq[len(g_fixreq) - 1][2]"
register(Contract(
    key=M38 + "next_token", properties=P + ["C08", "C09"],
    ghost={"g_reports": "List[Any]", "g_fixreq": "List[Any]"},
    types={"token": "InlineCodeSpanMarkdownToken"},
    calls={"self.report_next_token_error": RPK + "report_next_token_error", "self.register_fix_token_request": FIXREQ},
    requires=["has_type(token.line_number, 'int') and has_type(token.column_number, 'int')",
              f"implies(token.is_inline_code_span, len({S38}) >= 1)"],         # a code span has content (CommonMark: `` is not a code span)
    ensures=[
        f"implies(not context.in_fix_mode, len(g_reports) == old(len(g_reports)) + (1 if {TRIG38} else 0) and len(g_fixreq) == old(len(g_fixreq)))",
        f"implies(not context.in_fix_mode and {TRIG38}, g_reports[len(g_reports) - 1][1] == token.line_number and "
        "g_reports[len(g_reports) - 1][2] == token.column_number)",
        f"implies(context.in_fix_mode, len(g_reports) == old(len(g_reports)) and len(g_fixreq) == old(len(g_fixreq)) + (1 if {TRIG38} else 0))",
        f"implies(context.in_fix_mode and {TRIG38}, g_fixreq[len(g_fixreq) - 1][0] is token and g_fixreq[len(g_fixreq) - 1][1] == 'span_text')",
        # the new content is the old content minus the unnecessary space(s), character for character
        f"implies(context.in_fix_mode and {TRIG38}, len({NEW38}) == len({S38}) - {A38} - {B38})",
        f"implies(context.in_fix_mode and {TRIG38}, same_chars({NEW38}, {S38}, {A38}, len({S38}) - {A38} - {B38}))",
    ],
    raises=[Raises("BadPluginError"), Raises("BadPluginFixError")],
    modifies=["g_reports.$list", "g_fixreq.$list"],
))
