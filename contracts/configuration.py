"""C17 -- rule selection follows the documented precedence: command line (disable over enable), then configuration, then default."""
import z3

from pyvc.spec import Assumed, Contract, Loop, Raises, register, spec_fn
from pyvc.sym import V, fresh, vbool, Val, TH
from .exit_codes import SCHEME, SYSERR

PM = "pymarkdown/plugin_manager/plugin_manager.py::PluginManager."
P = ["C17"]
IDS = "plugin_object.plugin_identifiers"


@spec_fn("set_wf")
def set_wf(ex, st, args):
    """a set value is well-formed: its length is 0 exactly when it has no member"""
    (s,) = args
    r = V.r(s.z)
    x = fresh("x", V)
    return vbool((st.hread("$dlen", r) == 0) == z3.ForAll([x], z3.Not(z3.Select(st.hread("$ddom", r), x))))


DIS = f"('*' in command_line_disabled_rules or exists(lambda k: {IDS}[k] in command_line_disabled_rules, 0, len({IDS})))"
EN = f"exists(lambda k: {IDS}[k] in command_line_enabled_rules, 0, len({IDS}))"
CMD = f"(False if {DIS} else (True if {EN} else None))"

register(Contract(
    key=PM + "__handle_command_line_settings", properties=P,
    requires=["set_wf(command_line_disabled_rules)", "set_wf(command_line_enabled_rules)"],
    # --disable-rules wins over --enable-rules ("takes precedence over any other setting"); '*' disables every rule;
    # a rule is addressed by its id or any of its names (plugin_identifiers) with the same effect
    ensures=[f"result == {CMD}"],
    pure=True,
    loops={0: Loop(index="idx", invariant=["new_value is None", f"forall(lambda k: {IDS}[k] not in command_line_disabled_rules, 0, idx)"]),
           1: Loop(index="idx", invariant=["new_value is None", f"forall(lambda k: {IDS}[k] not in command_line_enabled_rules, 0, idx)"])},
))

_nonempty = z3.Function("cfg_section_nonempty", z3.IntSort(), z3.BoolSort())
_enabled = z3.Function("cfg_enabled_value", z3.IntSort(), V)


@spec_fn("section_nonempty")
def section_nonempty(ex, st, args):
    """does the loaded configuration contain any key under this section title?  (a function of the configuration state, fixed here)"""
    return vbool(_nonempty(V.s(args[0].z)))


@spec_fn("section_enabled")
def section_enabled(ex, st, args):
    """value of '<section>enabled' if it is a boolean, else None"""
    return Val(_enabled(V.s(args[0].z)), th=TH("Optional", [TH("bool")]))


TITLE = 'f"{PluginManager.__plugin_prefix}{properties.separator}" + f"{next_plugin.plugin_identifiers[k]}{properties.separator}"'
FACADE = Assumed("ApplicationPropertiesFacade(properties, section)", params=["props", "section"], returns="ApplicationPropertiesFacade",
                 fresh_result=True, pure=True,
                 ensures=["result.section_title is section", "(len(result.property_names) > 0) == section_nonempty(section)"],
                 why="application_properties: a facade is a view of the keys below `section`; property_names lists them")
from pyvc.spec import REGISTRY as _R
# also reachable when the constructor is called from code that is inlined into a verified function
register(Assumed("application_properties.ApplicationPropertiesFacade", params=["props", "section"], returns="ApplicationPropertiesFacade",
                 fresh_result=True, pure=True, ensures=list(FACADE.ensures), why=FACADE.why))
_R["$fields"].types.update({"ApplicationPropertiesFacade.property_names": "List[str]", "ApplicationPropertiesFacade.section_title": "str",
                            "ApplicationProperties.separator": "str"})

NIDS = "next_plugin.plugin_identifiers"
register(Contract(
    key=PM + "__find_configuration_for_plugin", properties=P,
    calls={"ApplicationPropertiesFacade": FACADE},
    types={"first_facade": "Optional[ApplicationPropertiesFacade]", "plugin_specific_facade": "Optional[ApplicationPropertiesFacade]"},
    requires=[f"len({NIDS}) >= 1"],
    ensures=[
        # the section of the FIRST identifier (id first, then the names in declaration order) that has any key wins
        f"forall(lambda k: implies(section_nonempty({TITLE}) and forall(lambda q: implies(q < k, not section_nonempty({TITLE.replace('[k]', '[q]')})), 0, len({NIDS})), "
        f"result is not None and result.section_title == {TITLE}), 0, len({NIDS}))",
        f"implies(forall(lambda k: not section_nonempty({TITLE}), 0, len({NIDS})), "
        f"(result is None) == (not always_return_facade))",
        f"implies(forall(lambda k: not section_nonempty({TITLE}), 0, len({NIDS})) and always_return_facade, "
        f"result.section_title == {TITLE.replace('[k]', '[0]')})",
    ],
    modifies=[],
    loops={0: Loop(index="idx", invariant=[
        "plugin_specific_facade is None",
        f"forall(lambda k: not section_nonempty({TITLE}), 0, idx)",
        f"implies(idx > 0, first_facade is not None and first_facade.section_title == {TITLE.replace('[k]', '[0]')})",
        "implies(idx == 0, first_facade is None)",
    ])},
))

# ---------------------------------------------------------------------------------------------------------
FACADE_GET = Assumed("ApplicationPropertiesFacade.get_boolean_property('enabled')", params=["name", "default_value"],
                     returns="Optional[bool]", pure=True, ensures=["result == section_enabled(self.section_title)"],
                     why="typed getter: the boolean stored under '<section>enabled', else the default (None)")
PO = "plugin_object"
register(Contract(
    key=PM + "__determine_if_plugin_enabled", properties=P,
    requires=["set_wf(command_line_enabled_rules)", "set_wf(command_line_disabled_rules)", f"len({IDS}) >= 1"],
    calls={"plugin_specific_facade.get_boolean_property": FACADE_GET,
           "self.__handle_command_line_settings": PM + "__handle_command_line_settings",
           "self.__find_configuration_for_plugin": PM + "__find_configuration_for_plugin"},
    ghost={"g_facade": "Optional[ApplicationPropertiesFacade]"},
    ensures=[
        # 1. command line (disable over enable)   2. the rule's 'enabled' item in the configuration   3. the rule's default
        f"implies({CMD} is not None, result == {CMD})",
        f"implies({CMD} is None and forall(lambda k: not section_nonempty({TITLE.replace('next_plugin', PO)}), 0, len({IDS})), "
        f"result == {PO}.plugin_enabled_by_default)",
        f"forall(lambda k: implies({CMD} is None and section_nonempty({TITLE.replace('next_plugin', PO)}) and "
        f"forall(lambda q: implies(q < k, not section_nonempty({TITLE.replace('next_plugin', PO).replace('[k]', '[q]')})), 0, len({IDS})), "
        f"result == ({PO}.plugin_enabled_by_default if section_enabled({TITLE.replace('next_plugin', PO)}) is None "
        f"else section_enabled({TITLE.replace('next_plugin', PO)}))), 0, len({IDS}))",
    ],
    modifies=[],
))

# ------------------------------------------------------------------------------------------------ layer order
ACH = "pymarkdown/application_configuration_helper.py::ApplicationConfigurationHelper."
LOADER_WHY = ("application_properties loader: reads the file (if present) and sets its keys; with clear_property_map=False keys of "
              "earlier layers that the file does not mention are kept, equal keys are overwritten: a LATER load has HIGHER precedence")
for fmt in ("Json", "Yaml", "Toml"):
    register(Assumed(f"application_properties.ApplicationProperties{fmt}Loader.load_and_set",
                     params=["properties_object", "configuration_file", "section_header", "handle_error_fn", "clear_property_map", "check_for_file_presence"],
                     returns="Tuple[bool, bool]", modifies=["$properties_state"], raises=[Raises("SystemExit", code=SYSERR)],
                     effects=["g_loads.append(((1 if check_for_file_presence else 2), clear_property_map))"], why=LOADER_WHY))
register(Assumed("application_properties.application_properties_utilities.ApplicationPropertiesUtilities.process_standard_python_configuration_files", why="x")) if False else register(Assumed("application_properties.ApplicationPropertiesUtilities.process_standard_python_configuration_files",
                 params=["properties", "handle_error_fn"], modifies=["$properties_state"], raises=[Raises("SystemExit", code=SYSERR)],
                 effects=["g_loads.append((0, False))"], why="loads [tool.pymarkdown] from pyproject.toml: the lowest layer"))
register(Assumed("ApplicationProperties.set_manual_property", params=["combined_string"], modifies=["$properties_state"], raises=[Raises("ValueError")],
                 effects=["g_loads.append((3, False))"], why="--set: applied last, highest precedence"))

_R["$namespace"].types.update({"configuration_file": "Optional[str]", "set_configuration": "Optional[List[str]]", "strict_configuration": "bool"})
ORDERED = ["forall(lambda j: g_loads[j][1] == False, old(len(g_loads)), len(g_loads))",   # no layer wipes the ones below it
           "forall(lambda i, j: implies(i < j, g_loads[i][0] <= g_loads[j][0]), old(len(g_loads)), len(g_loads))",
           "forall(lambda j: g_loads[j] == old(g_loads[j]), 0, old(len(g_loads)))", "len(g_loads) >= old(len(g_loads))"]
HE = Assumed("handle_error_fn(message, exception)", params=["m", "e"], pure=True, raises=[Raises("SystemExit", code=SYSERR)], why="PyMarkdownLint.__handle_error")

register(Contract(
    key=ACH + "__process_default_configuration_files", properties=P,
    ghost={"g_loads": "List[Any]"}, requires=[f"scheme_ok({SCHEME})"],
    calls={"os.path.abspath": Assumed("os.path.abspath", returns="str", pure=True, why="path arithmetic")},
    ensures=ORDERED + ["forall(lambda j: g_loads[j][0] == 1, old(len(g_loads)), len(g_loads))"],
    raises=[Raises("SystemExit", code=SYSERR)], modifies=["$properties_state", "g_loads.$list"],
))

register(Contract(
    key=ACH + "__process_project_specific_json_configuration", properties=P,
    ghost={"g_loads": "List[Any]"}, types={"args": "Namespace"}, requires=[f"scheme_ok({SCHEME})"],
    calls={"handle_error_fn": HE, "application_properties.set_manual_property": "ApplicationProperties.set_manual_property",
           "json.load": Assumed("json.load", pure=True, raises=[Raises("JSONDecodeError"), Raises("UnicodeError")], why="probe parse"),
           "yaml.safe_load": Assumed("yaml.safe_load", pure=True, raises=[Raises("MarkedYAMLError"), Raises("YAMLError")], why="probe parse"),
           "tomli.load": Assumed("tomli.load", pure=True, raises=[Raises("TOMLDecodeError"), Raises("UnicodeError")], why="probe parse")},
    ensures=ORDERED + ["forall(lambda j: g_loads[j][0] >= 1, old(len(g_loads)), len(g_loads))"],
    raises=[Raises("SystemExit", code=SYSERR), Raises("OSError"), Raises("ValueError"), Raises("YAMLError")],
    modifies=["$properties_state", "g_loads.$list"],
))

_R2 = _R
del _R2[ACH + "apply_configuration_layers"]
register(Contract(
    key=ACH + "apply_configuration_layers", properties=P,
    ghost={"g_loads": "List[Any]"}, types={"args": "Namespace"}, requires=[f"scheme_ok({SCHEME})"],
    calls={"properties.get_boolean_property": Assumed("ApplicationProperties.get_boolean_property", returns="bool", pure=True, raises=[Raises("ValueError")], why="typed getter"),
           "properties.enable_strict_mode": Assumed("ApplicationProperties.enable_strict_mode", modifies=["$properties_state"], why="turns strict mode on AFTER all layers are loaded")},
    # pyproject.toml  <  default file  <  --config  <  --set, and no layer clears the ones below
    ensures=ORDERED,
    raises=[Raises("SystemExit", code=SYSERR), Raises("OSError"), Raises("ValueError"), Raises("YAMLError")],
    modifies=["$properties_state", "g_loads.$list"],
))


# ------------------------------------------------------------------------------------------------ dispatch lists (C14, C17)
# __apply_configuration: a rule gets the section addressed by its id or ANY of its names (the first one that has keys, else
# the section of its id), is initialised from it exactly once, and is then entered into a dispatch list iff its class
# implements that callback.  apply_configuration: the four dispatch lists are exactly the rules of the selected list that
# implement the callback -- each once -- so every enabled rule receives every life-cycle event it implements (C14).
_impl = z3.Function("rule_class_implements", z3.IntSort(), z3.IntSort(), z3.BoolSort())


@spec_fn("implements")
def implements(ex, st, args):
    """implements(rule_instance, 'next_token'): the rule's class defines that callback (what set_configuration_map reads from
    self.__class__.__dict__): a function of the instance's class"""
    from pyvc.sym import clsof
    o, n = args
    return vbool(_impl(clsof(V.r(o.z)), V.s(n.z)))


RPC = "pymarkdown/plugin_manager/rule_plugin.py::RulePlugin."
FLAGS = {"tok": ("next_token", "__enabled_plugins_for_next_token"), "line": ("next_line", "__enabled_plugins_for_next_line"),
         "done": ("completed_file", "__enabled_plugins_for_completed_file"), "start": ("starting_new_file", "__enabled_plugins_for_starting_new_file")}
SETMAP = Assumed(RPC + "set_configuration_map", params=["plugin_specific_facade"],
                 modifies=["self._RulePlugin__plugin_specific_facade"] + [f"self._RulePlugin__is_{n}_implemented_in_plugin" for n, _ in FLAGS.values()]
                 + ["self._RulePlugin__is_query_config_implemented_in_plugin"],
                 ensures=["self._RulePlugin__plugin_specific_facade is plugin_specific_facade"]
                 + [f"self._RulePlugin__is_{n}_implemented_in_plugin == implements(self, '{n}')" for n, _ in FLAGS.values()],
                 effects=["g_sec.append((self, plugin_specific_facade.section_title))"],
                 why="RulePlugin.set_configuration_map: stores the facade and sets the four is_*_implemented flags from "
                     "`name in self.__class__.__dict__` (class introspection is outside the verified subset)")
INITCFG = Assumed(RPC + "initialize_from_config", raises=[Raises("Exception")], modifies=["$rule_state"],
                  effects=["g_init.append(self)"],
                  why="a rule's initialize_from_config: reads its facade, may raise; writes only its own private state "
                      "(C12 frame obligations for the built-in rules) -- never RulePlugin's is_*_implemented flags")
_R["$fields"].types.update({f"RulePlugin._RulePlugin__is_{n}_implemented_in_plugin": "bool" for n, _ in FLAGS.values()})
_R["$fields"].types.update({"FoundPlugin.plugin_instance": "RulePlugin", "FoundPlugin.plugin_id": "str"})
from pyvc.spec import PROTECTED_FIELDS as _PF
for _n, _ in FLAGS.values():
    _PF[f"_RulePlugin__is_{_n}_implemented_in_plugin"] = "stored only by RulePlugin.__init__ / set_configuration_map (structural obligation protected_rule_flags)"

NP = "next_plugin"
INST = f"{NP}.plugin_instance"


def _appended_iff(lst, cond):
    L = f"self.{lst}"
    return [f"len({L}) == old(len({L})) + (1 if {cond} else 0)",
            f"forall(lambda k: {L}[k] is old({L}[k]), 0, old(len({L})))",
            f"implies({cond}, {L}[old(len({L}))] is {NP})"]


register(Contract(
    key=PM + "__apply_configuration", properties=["C14", "C17"],
    ghost={"g_sec": "List[Any]", "g_init": "List[Any]"},
    calls={f"{INST}.set_configuration_map": SETMAP, f"{INST}.initialize_from_config": INITCFG,
           "self.__find_configuration_for_plugin": PM + "__find_configuration_for_plugin", "inspect.stack": "inspect.stack"},
    requires=[f"len({NIDS}) >= 1"] + [f"self.{l} is not self.{m}" for i, (_, l) in enumerate(FLAGS.values()) for j, (_, m) in enumerate(FLAGS.values()) if i < j],
    ensures=[
        # the rule is configured exactly once, from the section of the first of its identifiers that has any key (else its id's)
        "len(g_sec) == old(len(g_sec)) + 1 and len(g_init) == old(len(g_init)) + 1",
        f"g_sec[len(g_sec) - 1][0] is {INST} and g_init[len(g_init) - 1] is {INST}",
        "forall(lambda j: g_init[j] is old(g_init[j]), 0, old(len(g_init)))", "forall(lambda j: g_sec[j] == old(g_sec[j]), 0, old(len(g_sec)))",
        f"forall(lambda k: implies(section_nonempty({TITLE}) and forall(lambda q: implies(q < k, not section_nonempty({TITLE.replace('[k]', '[q]')})), 0, len({NIDS})), "
        f"g_sec[len(g_sec) - 1][1] == {TITLE}), 0, len({NIDS}))",
        f"implies(forall(lambda k: not section_nonempty({TITLE}), 0, len({NIDS})), g_sec[len(g_sec) - 1][1] == {TITLE.replace('[k]', '[0]')})",
    ] + [e for n, l in FLAGS.values() for e in _appended_iff(l, f"implements({INST}, '{n}')")],
    raises=[Raises("BadPluginError")],
    xensures={"BadPluginError": [f"len(self.{l}) == old(len(self.{l}))" for _, l in FLAGS.values()]},
    modifies=["$rule_state", "g_sec.$list", "g_init.$list", f"{INST}._RulePlugin__plugin_specific_facade",
              f"{INST}._RulePlugin__is_query_config_implemented_in_plugin"]
    + [f"{INST}._RulePlugin__is_{n}_implemented_in_plugin" for n, _ in FLAGS.values()] + [f"self.{l}.$list" for _, l in FLAGS.values()],
))

PL_ = "(self.__registered_plugins if use_full_list else self.__enabled_plugins)"
_R["$fields"].types.update({"PluginManager._PluginManager__registered_plugins": "List[FoundPlugin]", "PluginManager._PluginManager__enabled_plugins": "List[FoundPlugin]"})


def _list_is_filter(lst, name):
    """L holds exactly the rules of the selected list that implement `name`, each once"""
    L = f"self.{lst}"
    return [
        f"forall(lambda j: exists(lambda k: {L}[j] is {PL_}[k] and implements({PL_}[k].plugin_instance, '{name}'), 0, len({PL_})), 0, len({L}))",
        f"forall(lambda k: implies(implements({PL_}[k].plugin_instance, '{name}'), exists(lambda j: {L}[j] is {PL_}[k], 0, len({L}))), 0, len({PL_}))",
        f"forall(lambda i, j: implies(i < j, {L}[i] is not {L}[j]), 0, len({L}))",
    ]


def _witnessed(tag, lst, name):
    """the same, with the witnesses spelled out by ghosts: g_src_<tag>[j] = position in P of L[j] (strictly increasing),
    g_pos_<tag>[k] = position in L of P[k]"""
    L, gs, gp = f"self.{lst}", f"g_src_{tag}", f"g_pos_{tag}"
    return [
        f"len({gs}) == len({L})",
        f"forall(lambda j: 0 <= {gs}[j] and {gs}[j] < idx and {L}[j] is {PL_}[{gs}[j]] and implements({PL_}[{gs}[j]].plugin_instance, '{name}'), 0, len({L}))",
        f"forall(lambda i, j: implies(i < j, {gs}[i] < {gs}[j]), 0, len({L}))",
        f"forall(lambda k: implies(implements({PL_}[k].plugin_instance, '{name}'), 0 <= {gp}[k] and {gp}[k] < len({L}) and {L}[{gp}[k]] is {PL_}[k]), 0, idx)",
    ]


GH = {"g_sec": "List[Any]", "g_init": "List[Any]", "g_k": "int"}
EFF = []
for _t, (_n, _l) in FLAGS.items():
    GH[f"g_src_{_t}"] = "List[int]"
    GH[f"g_pos_{_t}"] = "Dict[int, int]"
    EFF += [f"g_pos_{_t}[g_k] = len(g_src_{_t})", f"g_src_{_t}.append_if(implements(next_plugin.plugin_instance, '{_n}'), g_k)"]
EFF += ["g_k = g_k + 1"]
register(Contract(
    key=PM + "apply_configuration", properties=["C14", "C17"],
    ghost=GH,
    calls={"self.__apply_configuration": (PM + "__apply_configuration", EFF)},
    requires=[f"forall(lambda i, j: implies(i < j, {PL_}[i] is not {PL_}[j]), 0, len({PL_}))",     # a rule is registered once
              f"forall(lambda k: len({PL_}[k].plugin_identifiers) >= 1, 0, len({PL_}))", "g_k == 0"]
    + [f"len(g_src_{t}) == 0" for t in FLAGS],
    ensures=[e for n, l in FLAGS.values() for e in _list_is_filter(l, n)]
    + ["len(g_init) == old(len(g_init)) + len(" + PL_ + ")",
       f"forall(lambda j: g_init[j] is {PL_}[j - old(len(g_init))].plugin_instance, old(len(g_init)), len(g_init))"],
    raises=[Raises("BadPluginError")],
    modifies=["$rule_state", "g_sec.$list", "g_init.$list", "_RulePlugin__plugin_specific_facade", "_RulePlugin__is_query_config_implemented_in_plugin"]
    + [f"_RulePlugin__is_{n}_implemented_in_plugin" for n, _ in FLAGS.values()] + [f"self.{l}" for _, l in FLAGS.values()]
    + ["$llen", "$litems", "$ddom", "$dval", "$dlen", "g_k"],
    loops={0: Loop(index="idx", invariant=[e for t, (n, l) in FLAGS.items() for e in _witnessed(t, l, n)]
                   + ["g_k == idx", "len(g_init) == old(len(g_init)) + idx", f"forall(lambda j: g_init[j] is {PL_}[j - old(len(g_init))].plugin_instance, old(len(g_init)), len(g_init))",
                      f"proper_list is {PL_}", f"len({PL_}) == old(len({PL_}))", f"forall(lambda k: {PL_}[k] is old({PL_}[k]), 0, len({PL_}))"]
                   + [f"self.{l} is not self.{m}" for i, (_, l) in enumerate(FLAGS.values()) for j, (_, m) in enumerate(FLAGS.values()) if i < j]
                   + [f"self.{l} is not {PL_}" for _, l in FLAGS.values()])},
))
