"""Sidecar contracts.  Importing this package registers every contract."""
from . import _assumed  # noqa: F401
from . import exit_codes  # noqa: F401
from . import scan_engine  # noqa: F401
from . import plugin_engine  # noqa: F401
from . import providers  # noqa: F401
from . import structural  # noqa: F401
from . import rule_analysis  # noqa: F401
from . import file_discovery  # noqa: F401
from . import configuration  # noqa: F401
from . import primitives  # noqa: F401
from . import pragmas  # noqa: F401
from . import api  # noqa: F401
from . import nesting  # noqa: F401
from . import fixes  # noqa: F401
from . import rules  # noqa: F401
from . import front_matter  # noqa: F401
from . import inline  # noqa: F401
