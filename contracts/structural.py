"""
Structural obligations: syntactic / frame / table checks over the real AST of /repo that back the assumptions
used by the function contracts (who may write a protected field, where FileScanHelper is constructed, ...),
plus finite table comparisons.  Each returns {"name", "ok", "info", "detail"}.
"""
from __future__ import annotations

import ast
import os
import time
from typing import Any, Callable, Dict, List

from pyvc import front

CHECKS: Dict[str, List[Callable[[], List[Dict[str, Any]]]]] = {}
ASSUME: Dict[str, List[str]] = {}


def check(*pids):
    def deco(f):
        for p in pids:
            CHECKS.setdefault(p, []).append(f)
        return f

    return deco


def run(pid: str, tier: str) -> List[Dict[str, Any]]:
    out = []
    for f in CHECKS.get(pid, []):
        t0 = time.time()
        try:
            res = f()
        except Exception as e:
            res = [{"name": f"structural::{f.__name__}", "ok": False, "undecided": True, "info": f.__doc__ or "", "detail": f"{type(e).__name__}: {e}"}]
        for r in res:
            r.setdefault("backend", "structural")
            r.setdefault("kind", "structural")
            r.setdefault("time", round(time.time() - t0, 4))
            r.setdefault("path", [])
        out.extend(res)
    return out


def assumptions(pid: str) -> List[str]:
    return ASSUME.get(pid, [])


def py_files(sub="pymarkdown"):
    root = os.path.join(front.REPO_ROOT, sub)
    for dp, _, fns in os.walk(root):
        for fn in sorted(fns):
            if fn.endswith(".py"):
                full = os.path.join(dp, fn)
                yield os.path.relpath(full, front.REPO_ROOT), full


_AST_CACHE: Dict[str, ast.Module] = {}


def parse(full: str) -> ast.Module:
    if full not in _AST_CACHE:
        _AST_CACHE[full] = ast.parse(open(full, "rt", encoding="utf-8").read(), filename=full)
    return _AST_CACHE[full]


def enclosing_functions(tree: ast.Module):
    """yield (qualified function name, node) for every function/method (one level of class nesting)"""
    for n in tree.body:
        if isinstance(n, ast.FunctionDef):
            yield n.name, n
        elif isinstance(n, ast.ClassDef):
            for m in n.body:
                if isinstance(m, ast.FunctionDef):
                    yield f"{n.name}.{m.name}", m


def store_sites(attr_names: List[str]):
    """(relpath, qualified function, line) of every attribute store / delete to one of attr_names in pymarkdown/"""
    out = []
    for rel, full in py_files():
        tree = parse(full)
        for q, fn in enclosing_functions(tree):
            for n in ast.walk(fn):
                if isinstance(n, ast.Attribute) and isinstance(n.ctx, (ast.Store, ast.Del)) and n.attr in attr_names:
                    out.append((rel, q, n.lineno))
    return out


@check("C18", "C15")
def protected_scheme_cell():
    """ReturnCodeHelper.__helper_name.value is stored only by ReturnCodeHelper.reset / set_initial_state
    (backs the PROTECTED_FIELDS entry 'value': a '*' modifies clause does not cover it)"""
    sites = store_sites(["value"])
    bad = [s for s in sites if not (s[0] == "pymarkdown/return_code_helper.py" and s[1] in ("ReturnCodeHelper.reset", "ReturnCodeHelper.set_initial_state"))]
    return [{"name": "structural::C18::protected[value]", "ok": not bad, "info": protected_scheme_cell.__doc__,
             "detail": f"store sites: {sites}; unexpected: {bad}"}]


@check("C15", "C10", "C18")
def protected_fsh_fields():
    """FileScanHelper.__continue_on_error / __show_stack_trace are stored only in FileScanHelper.__init__ /
    process_files_to_scan (backs their PROTECTED_FIELDS entries)"""
    out = []
    for fld, allowed in (("__continue_on_error", ("FileScanHelper.__init__", "FileScanHelper.process_files_to_scan")),
                         ("__show_stack_trace", ("FileScanHelper.__init__",)), ("__plugins", ("FileScanHelper.__init__",)),
                         ("__tokenizer", ("FileScanHelper.__init__",)), ("__presentation", ("FileScanHelper.__init__",)),
                         ("__handle_error", ("FileScanHelper.__init__",))):
        sites = [s for s in store_sites([fld]) if s[0] == "pymarkdown/file_scan_helper.py"]
        bad = [s for s in sites if s[1] not in allowed]
        out.append({"name": f"structural::C15::protected[FileScanHelper.{fld}]", "ok": not bad and bool(sites),
                    "info": protected_fsh_fields.__doc__, "detail": f"store sites: {sites}; unexpected: {bad}"})
    return out


@check("C15", "C18")
def handle_error_binding():
    """FileScanHelper is constructed in pymarkdown/ only in PyMarkdownLint.__scan_files_if_no_errors, with
    handle_error = self.__handle_error (so the Callable field FileScanHelper.__handle_error obeys the contract
    of PyMarkdownLint.__handle_error)"""
    sites = []
    for rel, full in py_files():
        for q, fn in enclosing_functions(parse(full)):
            for n in ast.walk(fn):
                if isinstance(n, ast.Call) and isinstance(n.func, ast.Name) and n.func.id == "FileScanHelper":
                    last = n.args[4] if len(n.args) >= 5 else None
                    ok = (rel == "pymarkdown/main.py" and q == "PyMarkdownLint.__scan_files_if_no_errors" and last is not None
                          and ast.unparse(last) == "self.__handle_error")
                    sites.append((rel, q, n.lineno, ok))
    good = bool(sites) and all(s[3] for s in sites)
    return [{"name": "structural::C15::handle_error_binding", "ok": good, "info": handle_error_binding.__doc__, "detail": f"construction sites: {sites}"}]


@check("C18")
def no_direct_exit():
    """no sys.exit / os._exit / raise SystemExit / quit() / exit() in pymarkdown/ outside ReturnCodeHelper.exit_application:
    the documented table is the only way out besides argparse"""
    bad = []
    for rel, full in py_files():
        for q, fn in enclosing_functions(parse(full)):
            for n in ast.walk(fn):
                hit = None
                if isinstance(n, ast.Call):
                    f = ast.unparse(n.func)
                    if f in ("sys.exit", "os._exit", "quit", "exit", "SystemExit", "os.abort"):
                        hit = f
                elif isinstance(n, ast.Raise) and n.exc is not None and "SystemExit" in ast.unparse(n.exc):
                    hit = "raise SystemExit"
                if hit and not (rel == "pymarkdown/return_code_helper.py" and q == "ReturnCodeHelper.exit_application"):
                    bad.append((rel, q, n.lineno, hit))
    return [{"name": "structural::C18::no_direct_exit", "ok": not bad, "info": no_direct_exit.__doc__, "detail": f"unexpected exit sites: {bad}"}]


@check("C15", "C07")
def parser_wraps():
    """TokenizedMarkdown.__transform: the whole body after the prologue is one try/except Exception that raises
    BadTokenizationError (backs the assumed contract of transform_from_provider: only BadTokenizationError leaves)"""
    mi = front.load_module("pymarkdown/general/tokenized_markdown.py")
    fi = mi.classes["TokenizedMarkdown"].methods.get("_TokenizedMarkdown__transform")
    ok = False
    detail = "function not found"
    if fi is not None:
        tries = [n for n in fi.node.body if isinstance(n, ast.Try)]
        others = [n for n in fi.node.body if not isinstance(n, (ast.Try, ast.Expr)) or (isinstance(n, ast.Expr) and not isinstance(n.value, ast.Constant) and not front.is_logging_call(n.value))]
        detail = f"top-level try blocks: {len(tries)}, other statements: {[type(o).__name__ for o in others]}"
        if len(tries) == 1 and not others:
            t = tries[0]
            for h in t.handlers:
                if h.type is not None and ast.unparse(h.type) == "Exception":
                    raises = [n for n in ast.walk(h) if isinstance(n, ast.Raise) and n.exc is not None]
                    if raises and all("BadTokenizationError" in ast.unparse(r.exc) for r in raises) and isinstance(h.body[-1], ast.Raise):
                        ok = True
            # every other handler must also end by raising BadTokenizationError
            for h in t.handlers:
                if not isinstance(h.body[-1], ast.Raise):
                    ok = False
    return [{"name": "structural::C15::parser_wraps", "ok": ok, "info": parser_wraps.__doc__, "detail": detail}]


@check("C15", "C18", "C10")
def namespace_readonly():
    """no function in pymarkdown/ stores to an attribute of an argparse.Namespace parameter named `args`
    (backs the PROTECTED_FIELDS entries ns.*)"""
    bad = []
    for rel, full in py_files():
        for q, fn in enclosing_functions(parse(full)):
            for n in ast.walk(fn):
                if isinstance(n, ast.Attribute) and isinstance(n.ctx, (ast.Store, ast.Del)) and isinstance(n.value, ast.Name) \
                        and n.value.id in ("args", "parse_arguments"):
                    bad.append((rel, q, n.lineno, n.attr))
                if isinstance(n, ast.Call) and isinstance(n.func, ast.Name) and n.func.id == "setattr" and n.args \
                        and isinstance(n.args[0], ast.Name) and n.args[0].id == "args":
                    bad.append((rel, q, n.lineno, "setattr"))
    return [{"name": "structural::C15::namespace_readonly", "ok": not bad, "info": namespace_readonly.__doc__, "detail": f"stores: {bad}"}]


@check("C15", "C10", "C18")
def files_list_not_aliased():
    """the list `files_to_scan` is never stored into a field, appended to another container or mutated in main.py /
    file_scan_helper.py: it only flows from determine_files_to_scan through main to process_files_to_scan
    (backs the frozen-iteration assumption of the file loop)"""
    bad = []
    for rel in ("pymarkdown/main.py", "pymarkdown/file_scan_helper.py"):
        tree = parse(os.path.join(front.REPO_ROOT, rel))
        for q, fn in enclosing_functions(tree):
            for n in ast.walk(fn):
                if isinstance(n, ast.Assign) and any(isinstance(t, (ast.Attribute, ast.Subscript)) for t in n.targets) \
                        and any(isinstance(x, ast.Name) and x.id == "files_to_scan" for x in ast.walk(n.value)):
                    bad.append((rel, q, n.lineno, "stored"))
                if isinstance(n, ast.Call) and isinstance(n.func, ast.Attribute) and isinstance(n.func.value, ast.Name) \
                        and n.func.value.id == "files_to_scan":
                    bad.append((rel, q, n.lineno, f"method {n.func.attr}"))
                if isinstance(n, (ast.Subscript,)) and isinstance(n.ctx, (ast.Store, ast.Del)) and isinstance(n.value, ast.Name) \
                        and n.value.id == "files_to_scan":
                    bad.append((rel, q, n.lineno, "item store"))
    return [{"name": "structural::C15::files_list_not_aliased", "ok": not bad, "info": files_list_not_aliased.__doc__, "detail": f"sites: {bad}"}]


@check("C18", "C07")
def protected_failure_counter():
    """PluginManager.number_of_scan_failures is stored only in PluginManager.__init__ / initialize / log_scan_failure"""
    sites = store_sites(["number_of_scan_failures"])
    bad = [x for x in sites if not (x[0] == "pymarkdown/plugin_manager/plugin_manager.py" and x[1] in ("PluginManager.__init__", "PluginManager.initialize", "PluginManager.log_scan_failure"))]
    return [{"name": "structural::C18::protected[number_of_scan_failures]", "ok": not bad and bool(sites), "info": protected_failure_counter.__doc__, "detail": f"sites {sites} unexpected {bad}"}]


@check("C07", "C15", "C18")
def protected_owning_manager():
    """PluginScanContext.owning_manager is stored only in PluginScanContext.__init__"""
    sites = store_sites(["owning_manager"])
    bad = [x for x in sites if not (x[0] == "pymarkdown/plugin_manager/plugin_scan_context.py" and x[1] == "PluginScanContext.__init__")]
    return [{"name": "structural::C07::protected[owning_manager]", "ok": not bad and bool(sites), "info": protected_owning_manager.__doc__, "detail": f"sites {sites} unexpected {bad}"}]


@check("C18", "C15")
def protected_main_fields():
    """PyMarkdownLint.__plugins/__presentation/__extensions/__properties/__string_to_scan are stored only in __init__"""
    out = []
    for fld in ("__plugins", "__presentation", "__extensions", "__properties", "__string_to_scan"):
        sites = [x for x in store_sites([fld]) if x[0] == "pymarkdown/main.py"]
        bad = [x for x in sites if x[1] != "PyMarkdownLint.__init__"]
        out.append({"name": f"structural::C18::protected[PyMarkdownLint.{fld}]", "ok": not bad and bool(sites), "info": protected_main_fields.__doc__, "detail": f"sites {sites} unexpected {bad}"})
    return out


# ------------------------------------------------------------------------------------------------ C13 / C20: parser statics
def _top_level_calls(stmts):
    """(index, call node) of expression-statement calls at the top level of a statement list"""
    out = []
    for i, s_ in enumerate(stmts):
        if isinstance(s_, ast.Expr) and isinstance(s_.value, ast.Call):
            out.append((i, s_.value))
        elif isinstance(s_, ast.Assign) and isinstance(s_.value, ast.Call):
            out.append((i, s_.value))
    return out


def _method(rel, cls, name):
    mi = front.load_module(rel)
    return mi.classes[cls].methods.get(front.mangle(name, cls))


@check("C13", "C20")
def transform_initialises_statics():
    """TokenizedMarkdown.__transform calls InlineProcessor.initialize(extension manager) and LinkParseHelper.initialize()
    on every call, before the block pass: nothing learned from one document (link definitions, handler tables) reaches the next"""
    fi = _method("pymarkdown/general/tokenized_markdown.py", "TokenizedMarkdown", "__transform")
    out = []
    body = []
    if fi is not None:
        tries = [n for n in fi.node.body if isinstance(n, ast.Try)]
        body = tries[0].body if tries else fi.node.body
    calls = [(i, ast.unparse(c.func)) for i, c in _top_level_calls(body)]
    idx = {name: i for i, name in calls}
    pass_i = next((i for i, name in calls if name.endswith("__parse_blocks_pass")), None)
    for need in ("InlineProcessor.initialize", "LinkParseHelper.initialize"):
        ok = need in idx and pass_i is not None and idx[need] < pass_i
        out.append({"name": f"structural::C13::transform_order[{need}]", "ok": ok, "info": transform_initialises_statics.__doc__,
                    "detail": f"top-level calls of __transform in order: {calls}"})
    return out


@check("C13", "C20", "C11")
def block_pass_resets():
    """TokenizedMarkdown.__parse_blocks_pass starts by re-creating the token stack, the document and the pragma-line map,
    before anything that can raise: a failed parse cannot leak them into the next document"""
    fi = _method("pymarkdown/general/tokenized_markdown.py", "TokenizedMarkdown", "__parse_blocks_pass")
    out = []
    prefix = []
    if fi is not None:
        for s_ in fi.node.body:
            if isinstance(s_, ast.Try):
                break
            prefix.append(s_)
    assigns = {}
    for i, s_ in enumerate(prefix):
        if isinstance(s_, ast.Assign) and len(s_.targets) == 1:
            assigns[ast.unparse(s_.targets[0])] = ast.unparse(s_.value)
        elif isinstance(s_, (ast.Assert,)) or (isinstance(s_, ast.Expr) and (isinstance(s_.value, ast.Constant) or front.is_logging_call(s_.value))):
            continue
        elif not isinstance(s_, ast.Assign):
            assigns[f"<other statement {type(s_).__name__}@{s_.lineno}>"] = ""
    want = {"self._TokenizedMarkdown__parse_properties.pragma_lines": "{}", "self._TokenizedMarkdown__tokenized_document": "[]",
            "self._TokenizedMarkdown__token_stack": "[DocumentStackToken()]"}
    for k, v in want.items():
        out.append({"name": f"structural::C13::block_pass_reset[{k.split('.')[-1]}]", "ok": assigns.get(k) == v,
                    "info": block_pass_resets.__doc__, "detail": f"assignments before the try block: {assigns}"})
    return out


def static_stores():
    """every store to / mutation of a class-level attribute in pymarkdown/ (outside plugins/): (class, attr) -> [(rel, function, line, kind)]"""
    from .rule_analysis import MUTATORS

    out = {}
    for rel, full in py_files():
        if "/plugins/" in rel:
            continue
        tree = parse(full)
        classes = {n.name for n in tree.body if isinstance(n, ast.ClassDef)}
        for q, fn in enclosing_functions(tree):
            cls = q.split(".")[0] if "." in q else None
            for n in ast.walk(fn):
                tgt = None
                kind = None
                if isinstance(n, ast.Attribute) and isinstance(n.ctx, (ast.Store, ast.Del)):
                    tgt, kind = n, "assign"
                elif isinstance(n, ast.Subscript) and isinstance(n.ctx, (ast.Store, ast.Del)) and isinstance(n.value, ast.Attribute):
                    tgt, kind = n.value, "item"
                elif isinstance(n, ast.Call) and isinstance(n.func, ast.Attribute) and n.func.attr in MUTATORS and isinstance(n.func.value, ast.Attribute):
                    tgt, kind = n.func.value, "mutate"
                if tgt is None or not isinstance(tgt.value, ast.Name):
                    continue
                root = tgt.value.id
                if root == "cls" and cls:
                    root = cls
                if root[:1].isupper() and root != "self":
                    attr = front.mangle(tgt.attr, cls) if root == cls else tgt.attr
                    out.setdefault((root, attr), []).append((rel, q, n.lineno, kind))
    return out


@check("C13")
def parser_statics_reset():
    """every class-level variable of the application that is written after import is either re-initialised, to a value that
    depends only on the extension flags, by an initialiser that __transform runs for every document, or is exempt for a stated
    reason (specs/static_exemptions.json: configuration-only, diagnostics-only, per-invocation)"""
    import json as _json

    exempt = _json.load(open(os.path.join(os.path.dirname(os.path.abspath(__file__)), "..", "specs", "static_exemptions.json")))
    init_chain = {("pymarkdown/inline/inline_processor.py", "InlineProcessor.initialize"),
                  ("pymarkdown/inline/inline_handler_helper.py", "InlineHandlerHelper.initialize"),
                  ("pymarkdown/inline/emphasis_helper.py", "EmphasisHelper.initialize"),
                  ("pymarkdown/links/link_parse_helper.py", "LinkParseHelper.initialize")}
    out = []
    # the chain itself: each initialiser calls the next one at its top level
    for (rel, q), callee in ((("pymarkdown/inline/inline_processor.py", "InlineProcessor.initialize"), "InlineHandlerHelper.initialize"),
                             (("pymarkdown/inline/inline_handler_helper.py", "InlineHandlerHelper.initialize"), "EmphasisHelper.initialize")):
        fn = dict(enclosing_functions(parse(os.path.join(front.REPO_ROOT, rel)))).get(q)
        names = [ast.unparse(c.func) for _, c in _top_level_calls(fn.body)] if fn is not None else []
        out.append({"name": f"structural::C13::init_chain[{q}->{callee}]", "ok": callee in names, "info": parser_statics_reset.__doc__,
                    "detail": f"top-level calls: {names}"})
    for (cls, attr), sites in sorted(static_stores().items()):
        key = f"{cls}.{attr}"
        name = f"structural::C13::static[{key}]"
        if key in exempt:
            out.append({"name": name, "ok": True, "info": f"class-level state {key}: exempt", "detail": exempt[key]})
            continue
        # a top-level plain assignment `Cls.attr = <expr>` inside a function of the init chain
        ok = False
        where = ""
        for rel, q, line, kind in sites:
            if (rel, q) in init_chain and kind == "assign":
                fn = dict(enclosing_functions(parse(os.path.join(front.REPO_ROOT, rel))))[q]
                for s_ in fn.body:
                    if isinstance(s_, ast.Assign) and s_.lineno == line:
                        ok = True
                        where = f"{q}@{line}"
        out.append({"name": name, "ok": ok, "info": f"class-level state {key} is re-initialised for every document",
                    "detail": where or f"write sites {sites}; none is a top-level assignment in {sorted(q for _, q in init_chain)}"})
    return out


@check("C11", "C20")
def pragma_lines_single_writer():
    """the only place that stores a line into ParseBlockPassProperties.pragma_lines is PragmaExtension.look_for_pragmas; the
    map object is replaced only by TokenizedMarkdown.__parse_blocks_pass / ParseBlockPassProperties.__init__; and
    look_for_pragmas is called only from ContainerBlockProcessor.__look_for_pragmas under the pragmas-enabled flag"""
    sites = []
    for rel, full in py_files():
        for q, fn in enclosing_functions(parse(full)):
            for n in ast.walk(fn):
                if isinstance(n, ast.Subscript) and isinstance(n.ctx, (ast.Store, ast.Del)) and isinstance(n.value, ast.Attribute) and n.value.attr == "pragma_lines":
                    sites.append((rel, q, n.lineno, "item"))
                if isinstance(n, ast.Attribute) and isinstance(n.ctx, (ast.Store, ast.Del)) and n.attr == "pragma_lines":
                    sites.append((rel, q, n.lineno, "rebinding"))
    ok_item = [x for x in sites if x[3] == "item"]
    bad = [x for x in ok_item if not (x[0] == "pymarkdown/extensions/pragma_token.py" and x[1] == "PragmaExtension.look_for_pragmas")]
    bad += [x for x in sites if x[3] == "rebinding" and x[1] not in ("TokenizedMarkdown.__parse_blocks_pass", "ParseBlockPassProperties.__init__")]
    return [{"name": "structural::C11::pragma_lines_single_writer", "ok": not bad and bool(ok_item), "info": pragma_lines_single_writer.__doc__,
             "detail": f"sites {sites} unexpected {bad}"}]


# ------------------------------------------------------------------------------------------------ C10: scan is read-only
WRITE_CALLS = {"shutil.copyfile", "shutil.copy", "shutil.move", "os.remove", "os.replace", "os.rename", "os.unlink", "os.rmdir", "os.mkdir",
               "os.makedirs", "tempfile.NamedTemporaryFile", "tempfile.mkstemp", "tempfile.mkdtemp", "tempfile.TemporaryDirectory"}


def fs_write_sites():
    out = []
    for rel, full in py_files():
        for q, fn in enclosing_functions(parse(full)):
            for n in ast.walk(fn):
                if not isinstance(n, ast.Call):
                    continue
                f = ast.unparse(n.func)
                hit = None
                if f in WRITE_CALLS:
                    hit = f
                elif f == "open" or f.endswith(".open"):
                    mode = n.args[1] if len(n.args) > 1 else next((k.value for k in n.keywords if k.arg == "mode"), None)
                    m = mode.value if isinstance(mode, ast.Constant) else ("r" if mode is None else "?")
                    if any(c in str(m) for c in "wax+?"):
                        hit = f"open(mode={m})"
                elif isinstance(n.func, ast.Attribute) and n.func.attr in ("write_text", "write_bytes", "unlink", "touch", "rename"):
                    hit = f
                if hit:
                    out.append((rel, q, n.lineno, hit))
    return out


@check("C10")
def scan_is_read_only():
    """every call in pymarkdown/ that can create, change or delete a file is in a function that is only reachable in fix mode,
    or is the stdin spool of __scan_from_stdin (created and removed in the same function, proved), or the --log-file handler,
    or the API's fix_string"""
    allowed = {
        ("pymarkdown/file_scan_helper.py", "FileScanHelper.__scan_from_stdin"): "stdin spool (removed on every exit: contract of __scan_from_stdin)",
        ("pymarkdown/file_scan_helper.py", "FileScanHelper.__get_temporary_file_name"): "fix only",
        ("pymarkdown/file_scan_helper.py", "FileScanHelper.__process_file_fix_pass"): "fix only",
        ("pymarkdown/file_scan_helper.py", "FileScanHelper.__process_file_fix_lines"): "fix only",
        ("pymarkdown/file_scan_helper.py", "FileScanHelper.__process_file_fix_tokens_apply_fixes"): "fix only",
        ("pymarkdown/api.py", "PyMarkdownApi.fix_string"): "API fix of a string: its own temporary file",
        ("pymarkdown/api.py", "PyMarkdownApi.scan_string"): "?",
    }
    sites = fs_write_sites()
    out = []
    bad = [x for x in sites if (x[0], x[1]) not in allowed and not x[0].endswith("application_logging.py")]
    out.append({"name": "structural::C10::write_sites", "ok": not bad, "info": scan_is_read_only.__doc__, "detail": f"sites {sites}; unexpected {bad}"})
    # fix-only functions are reachable only through __fix_specific_file, which is called only under `if in_fix_mode:`
    mi = front.load_module("pymarkdown/file_scan_helper.py")
    ci = mi.classes["FileScanHelper"]
    callers = {}
    for mname, fi in ci.methods.items():
        for n in ast.walk(fi.node):
            if isinstance(n, ast.Call) and isinstance(n.func, ast.Attribute) and isinstance(n.func.value, ast.Name) and n.func.value.id == "self" \
                    and n.func.attr in ci.methods:
                callers.setdefault(n.func.attr, set()).add(mname)
    fix_only = {front.mangle(q.split(".")[1], "FileScanHelper") for (rel, q), why in allowed.items() if why == "fix only"}
    entry = front.mangle("__fix_specific_file", "FileScanHelper")
    seen = set()
    work = list(fix_only)
    leak = []
    while work:
        m = work.pop()
        if m in seen or m == entry:
            continue
        seen.add(m)
        cs = callers.get(m, set())
        if not cs:
            leak.append(f"{m} has no caller inside the class (entry point?)")
        work.extend(cs)
    pub = [m for m in seen if not m.startswith("_FileScanHelper__")]
    ok_graph = not leak and not pub
    # the single call of __fix_specific_file sits in the body of `if in_fix_mode:` in process_files_to_scan
    ok_guard = False
    p = ci.methods["process_files_to_scan"].node
    for n in ast.walk(p):
        if isinstance(n, ast.If) and ast.unparse(n.test) == "in_fix_mode":
            if any(isinstance(x, ast.Call) and ast.unparse(x.func).endswith("__fix_specific_file") for b in n.body for x in ast.walk(b)):
                ok_guard = True
    only_caller = callers.get(entry, set()) == {"process_files_to_scan"}
    out.append({"name": "structural::C10::fix_only_reachability", "ok": ok_graph and ok_guard and only_caller, "info": scan_is_read_only.__doc__,
                "detail": f"functions above the write sites: {sorted(seen)}; public: {pub}; leaks: {leak}; guarded call: {ok_guard}; callers of __fix_specific_file: {callers.get(entry)}"})
    return out


# ------------------------------------------------------------------------------------------------ C16: diagnostics do not interfere
LOG_METHODS = {"debug", "info", "warning", "error", "critical", "exception", "log"}


def _is_literal_format(fmt) -> bool:
    if isinstance(fmt, ast.Constant) and isinstance(fmt.value, str):
        return True
    if isinstance(fmt, ast.JoinedStr) and not any(isinstance(v, ast.FormattedValue) for v in fmt.values):
        return True
    if isinstance(fmt, ast.BinOp) and isinstance(fmt.op, ast.Add):      # "literal" + "literal"
        return _is_literal_format(fmt.left) and _is_literal_format(fmt.right)
    return False


def munge_keeps_argumentless_messages() -> bool:
    """ParserLogger.__munge starts with `if not args: return <log_format with the two range markers removed>`: a message that comes
    without arguments is never split at `$`"""
    tree = parse(os.path.join(front.REPO_ROOT, "pymarkdown/general/parser_logger.py"))
    for q, fn in enclosing_functions(tree):
        if q == "ParserLogger.__munge":
            body = [s_ for s_ in fn.body if not (isinstance(s_, ast.Expr) and isinstance(s_.value, ast.Constant))]
            first = body[0] if body else None
            if isinstance(first, ast.If) and ast.unparse(first.test) == "not args" and first.body and isinstance(first.body[-1], ast.Return) \
                    and not first.orelse and "split" not in ast.unparse(first) and "log_format" in ast.unparse(first.body[-1]):
                return True
    return False


def pogger_nonliteral_sites():
    """POGGER calls whose format could make the call fail: a format that is not a literal AND is followed by arguments (a `$` coming
    from interpolated text would be counted as a substitution point); without the argument-less rule of __munge every non-literal format"""
    out = {}
    n = 0
    guard = munge_keeps_argumentless_messages()
    for rel, full in py_files():
        tree = parse(full)
        for q, fn in list(enclosing_functions(tree)):
            for node in ast.walk(fn):
                if isinstance(node, ast.Call) and isinstance(node.func, ast.Attribute) and node.func.attr in LOG_METHODS \
                        and isinstance(node.func.value, ast.Name) and node.func.value.id == "POGGER":
                    n += 1
                    fmt = node.args[0] if node.args else None
                    ok = _is_literal_format(fmt) or (guard and len(node.args) == 1 and not node.keywords)
                    if not ok:
                        out.setdefault((rel, q), []).append(node.lineno)
    return out, n


@check("C16", "C15")
def logging_format_strings_are_literals():
    """a ParserLogger call cannot fail because of the document: ParserLogger substitutes `$` placeholders in the format, so either the
    format is a string LITERAL (or literals joined by +), or the call passes NO arguments and ParserLogger.__munge logs such a
    message verbatim (obligation [munge]); document text interpolated into a format that is followed by arguments would make the call
    raise when the level is enabled and the text contains `$` - the log level would then change the outcome of the run.  (This also
    backs the extraction rule that drops logging calls.)  One obligation per function with an offending call."""
    sites, n = pogger_nonliteral_sites()
    out = [{"name": "structural::C16::pogger_literal_formats[total]", "ok": n > 0, "info": logging_format_strings_are_literals.__doc__, "detail": f"{n} POGGER calls inspected"},
           {"name": "structural::C16::pogger_literal_formats[munge]", "ok": munge_keeps_argumentless_messages(),
            "info": "ParserLogger.__munge returns an argument-less message verbatim before splitting at `$`", "detail": "pymarkdown/general/parser_logger.py"}]
    for (rel, q), lines in sorted(sites.items()):
        out.append({"name": f"structural::C16::pogger_literal_formats[{rel}::{q}]", "ok": False, "info": logging_format_strings_are_literals.__doc__,
                    "detail": f"non-literal format followed by arguments at lines {lines}", "path": [f"{rel}::{q}"]})
    return out


@check("C16")
def stack_trace_flag_only_feeds_messages():
    """the --stack-trace flag (show_stack_trace) is only ever (a) passed on / stored, or (b) used to choose what goes INTO an error
    message (actual_token / actual_line / extended information / traceback text): no control flow that affects scanning,
    fixing or the exit category depends on it"""
    message_targets = {"actual_token", "actual_line", "stack_trace", "show_extended_information"}
    bad = []
    n = 0
    for rel, full in py_files():
        if rel.endswith("application_logging.py"):
            continue  # the logging subsystem itself: the flag only selects the default log level there (diagnostics)
        tree = parse(full)
        parents = {}
        for p_ in ast.walk(tree):
            for ch in ast.iter_child_nodes(p_):
                parents[ch] = p_
        for node in ast.walk(tree):
            is_flag = (isinstance(node, ast.Attribute) and node.attr.endswith("show_stack_trace") and isinstance(node.ctx, ast.Load)) or \
                      (isinstance(node, ast.Name) and node.id == "show_stack_trace" and isinstance(node.ctx, ast.Load))
            if not is_flag:
                continue
            n += 1
            # climb to the enclosing statement
            cur = node
            ok = False
            while cur in parents:
                par = parents[cur]
                if isinstance(par, ast.Call) and cur in par.args + [k.value for k in par.keywords]:
                    ok = True   # passed on as an argument
                    break
                if isinstance(par, ast.keyword):
                    ok = True   # keyword argument of a call: passed on
                    break
                if isinstance(par, ast.IfExp) and (cur is par.test or cur in ast.walk(par.test)):
                    stmt = par
                    while stmt in parents and not isinstance(stmt, (ast.Assign, ast.AnnAssign)):
                        stmt = parents[stmt]
                    if isinstance(stmt, ast.Assign) and all(isinstance(t, ast.Name) and t.id in message_targets for t in stmt.targets):
                        ok = True
                    break
                if isinstance(par, (ast.Assign, ast.AnnAssign)):
                    tg = par.targets if isinstance(par, ast.Assign) else [par.target]
                    names = [ast.unparse(t) for t in tg]
                    ok = all(nm.endswith("show_stack_trace") or nm in message_targets or "show_stack_trace" in nm for nm in names) or \
                        any("show_stack_trace" in ast.unparse(e) for t in tg if isinstance(t, ast.Tuple) for e in t.elts)
                    break
                if isinstance(par, (ast.If, ast.While)) and cur is par.test:
                    # `if not self.__show_stack_trace and self.__properties:` in main only re-reads the flag from configuration
                    body_src = " ".join(ast.unparse(b) for b in par.body)
                    ok = "show_stack_trace" in body_src and all(isinstance(b, ast.Assign) for b in par.body)
                    break
                if isinstance(par, ast.stmt):
                    break
                cur = par
            if not ok:
                bad.append((rel, node.lineno, ast.unparse(parents.get(node, node))[:80]))
    return [{"name": "structural::C16::stack_trace_only_in_messages", "ok": not bad and n > 0, "info": stack_trace_flag_only_feeds_messages.__doc__,
             "detail": f"{n} reads of the flag; not message-only: {bad}"}]


# ------------------------------------------------------------------------------------------------ C20: extensions are inert unless enabled
def _guarded_by(tree, node, flag: str, parents) -> bool:
    """node lies in the body of an `if` / the true-branch of an `a if flag else b` whose test mentions `flag` positively, or its
    function returns early under `not flag` before reaching it"""
    cur = node
    while cur in parents:
        par = parents[cur]
        if isinstance(par, ast.If) and flag in ast.unparse(par.test) and not ast.unparse(par.test).strip().startswith("not "):
            if any(cur is b or cur in list(ast.walk(b)) for b in par.body):
                return True
        if isinstance(par, ast.IfExp) and flag in ast.unparse(par.test) and (cur is par.body or cur in list(ast.walk(par.body))):
            return True
        if isinstance(par, ast.FunctionDef):
            # early return pattern: `if ... not <flag> ...: return` earlier in the same function
            for stmt in par.body:
                if getattr(stmt, "lineno", 10 ** 9) >= getattr(node, "lineno", 0):
                    break
                if isinstance(stmt, ast.If) and f"not {flag.split('.')[-1]}" in ast.unparse(stmt.test).replace("parser_properties.", "").replace("parse_properties.", "") \
                        and any(isinstance(x, ast.Return) for x in stmt.body):
                    return True
            return False
        cur = par
    return False


EXT_USES = [
    ("MarkdownExtendedAutolinksExtension.", "is_extended_autolinks_enabled"),
    ("PragmaExtension.look_for_pragmas", "is_pragmas_enabled"),
    (".process_header_if_present", "is_front_matter_enabled"),
    ("TaskListToken(", "is_task_lists_enabled"),
    ("__strikethrough_emphasis", "is_strike_through_enabled"),
]


@check("C20")
def extension_guards():
    """every use of an extension's entry point in the parser (outside pymarkdown/extensions) is dominated by that extension's
    enabled flag: with the flag off the parser cannot reach the extension's code, and the inline handler / emphasis tables contain
    nothing of it"""
    out = []
    for rel, full in py_files():
        if rel.startswith("pymarkdown/extensions/") or rel.startswith("pymarkdown/extension_manager/") or rel.startswith("pymarkdown/plugins/"):
            continue
        tree = parse(full)
        parents = {}
        for p_ in ast.walk(tree):
            for ch in ast.iter_child_nodes(p_):
                parents[ch] = p_
        for node in ast.walk(tree):
            if not isinstance(node, (ast.Call, ast.Attribute)):
                continue
            txt = ast.unparse(node)
            for pat, flag in EXT_USES:
                hit = (isinstance(node, ast.Call) and (ast.unparse(node.func) + "(").endswith(pat) if pat.endswith("(") else
                       (isinstance(node, ast.Attribute) and txt.endswith(pat.rstrip(".")) if not pat.endswith(".") else
                        isinstance(node, ast.Attribute) and txt.startswith(pat) and isinstance(node.value, ast.Name)))
                if not hit:
                    continue
                if pat == "__strikethrough_emphasis" and isinstance(parents.get(node), (ast.Assign,)) and isinstance(node.ctx, ast.Store):
                    continue
                if pat == "__strikethrough_emphasis" and not isinstance(getattr(node, "ctx", None), ast.Load):
                    continue
                if pat == "__strikethrough_emphasis" and isinstance(parents.get(node), ast.Compare):
                    continue  # comparing a delimiter that is already known to be in the (flag-built) emphasis alphabet
                ok = _guarded_by(tree, node, flag, parents)
                out.append({"name": f"structural::C20::guard[{rel}:{pat.strip('.(')}@{node.lineno}]", "ok": ok, "info": extension_guards.__doc__,
                            "detail": f"{rel}:{node.lineno}: `{txt[:70]}` must be dominated by {flag}", "path": [f"{rel}:{node.lineno}"]})
    return out


@check("C20")
def flags_are_copied():
    """ParseBlockPassProperties takes its five flags unchanged from the extension manager (no flag is derived from anything else)"""
    mi = front.load_module("pymarkdown/container_blocks/parse_block_pass_properties.py")
    init = mi.classes["ParseBlockPassProperties"].methods["__init__"].node
    src = ast.unparse(init)
    want = ["extension_manager.is_front_matter_enabled", "extension_manager.is_linter_pragmas_enabled", "extension_manager.is_disallow_raw_html_enabled",
            "extension_manager.is_task_list_items_enabled"]
    missing = [w for w in want if w not in src]
    return [{"name": "structural::C20::flags_copied", "ok": not missing, "info": flags_are_copied.__doc__, "detail": f"missing reads: {missing}"}]


# ------------------------------------------------------------------------------------------------------------ C04
PARSER_EXCLUDE = ("pymarkdown/plugins/", "pymarkdown/transform_markdown/", "pymarkdown/transform_to_", "pymarkdown/transform_gfm/")


def _parser_files():
    for rel, full in py_files():
        if not rel.startswith(PARSER_EXCLUDE):
            yield rel, full


def _is_top_index(sub: ast.Subscript) -> bool:
    s = sub.slice
    return isinstance(s, ast.UnaryOp) and isinstance(s.op, ast.USub) and isinstance(s.operand, ast.Constant) and s.operand.value == 1


def _ends_with_attr(e: ast.expr, name: str) -> bool:
    return isinstance(e, ast.Attribute) and e.attr == name


@check("C04")
def end_tokens_only_from_generators():
    """In the parser (everything but the rule plugins, which build replacement tokens for fixes) an EndMarkdownToken is
    constructed only by the two generators under contract (StackToken.generate_close_markdown_token_from_stack_token,
    MarkdownToken.generate_close_markdown_token_from_markdown_token): every end token refers to the start token it closes."""
    allowed = {("pymarkdown/tokens/stack_token.py", "StackToken.generate_close_markdown_token_from_stack_token"),
               ("pymarkdown/tokens/markdown_token.py", "MarkdownToken.generate_close_markdown_token_from_markdown_token")}
    sites, bad = [], []
    for rel, full in _parser_files():
        for q, fn in enclosing_functions(parse(full)):
            for n in ast.walk(fn):
                if isinstance(n, ast.Call) and ((isinstance(n.func, ast.Name) and n.func.id == "EndMarkdownToken")
                                                or (isinstance(n.func, ast.Attribute) and n.func.attr == "EndMarkdownToken")):
                    sites.append((rel, q, n.lineno))
                    if (rel, q) not in allowed:
                        bad.append((rel, q, n.lineno))
    return [{"name": "structural::C04::end_tokens_only_from_generators", "ok": bool(sites) and not bad,
             "info": end_tokens_only_from_generators.__doc__, "detail": f"construction sites: {sites}; unexpected: {bad}"}]


# the one place that rewinds the block stack wholesale (under contract in contracts/nesting.py)
REWIND = ("pymarkdown/links/link_reference_definition_helper.py", "LinkReferenceDefinitionHelper.__prepare_for_requeue_reset_document_and_stack")


@check("C04")
def block_stack_discipline():
    """The parser's block stack (`token_stack`) is a stack: in the parser it is only ever changed by `.append(x)` (open a
    block) and `del ...token_stack[-1]` (close the innermost one); the only wholesale change is the LRD rewind, which is
    under contract (stack == snapshot).  No insert / pop(i) / remove / slice assignment / re-binding can take an entry out of
    the middle.  One obligation per mutation site."""
    out, n = [], 0
    for rel, full in _parser_files():
        for q, fn in enclosing_functions(parse(full)):
            for node in ast.walk(fn):
                verdict = None
                if isinstance(node, ast.Call) and isinstance(node.func, ast.Attribute) and _ends_with_attr(node.func.value, "token_stack") \
                        and node.func.attr in ("append", "insert", "pop", "remove", "extend", "clear", "sort", "reverse", "__setitem__", "__delitem__"):
                    verdict = node.func.attr == "append" or (node.func.attr == "extend" and (rel, q) == REWIND)
                    what = f".{node.func.attr}()"
                elif isinstance(node, ast.Delete):
                    for t in node.targets:
                        if isinstance(t, ast.Subscript) and _ends_with_attr(t.value, "token_stack"):
                            verdict = _is_top_index(t)
                            what = "del [" + ast.unparse(t.slice) + "]"
                elif isinstance(node, (ast.Assign, ast.AugAssign, ast.AnnAssign)):
                    tg = node.targets if isinstance(node, ast.Assign) else [node.target]
                    flat = []
                    for t in tg:
                        flat.extend(t.elts if isinstance(t, (ast.Tuple, ast.List)) else [t])
                    for t in flat:
                        if isinstance(t, ast.Subscript) and _ends_with_attr(t.value, "token_stack"):
                            verdict, what = False, "item/slice assignment"
                        elif isinstance(t, ast.Attribute) and t.attr in ("token_stack", "__token_stack", "_ParserState__token_stack"):
                            # (re-)binding: only where the stack is created for a document
                            verdict = (rel, q) in {("pymarkdown/general/tokenized_markdown.py", "TokenizedMarkdown.__init__"), ("pymarkdown/general/tokenized_markdown.py", "TokenizedMarkdown.__transform"),
                                                   ("pymarkdown/general/tokenized_markdown.py", "TokenizedMarkdown.__parse_blocks_pass"),
                                                   ("pymarkdown/general/parser_state.py", "ParserState.__init__")}
                            what = "re-binding"
                if verdict is None:
                    continue
                n += 1
                out.append({"name": f"structural::C04::block_stack_discipline[{rel}::{q}@{node.lineno}]", "ok": bool(verdict),
                            "info": "token_stack is only changed by append / del [-1] (plus the contracted LRD rewind)",
                            "detail": f"{what} at {rel}:{node.lineno}"})
    if n < 10:
        out.append({"name": "structural::C04::block_stack_discipline[coverage]", "ok": False, "undecided": True,
                    "info": "expected mutation sites not found", "detail": f"only {n} sites"})
    return out


@check("C04")
def close_emits_end_for_top_of_stack():
    """Every end token generated from a stack entry is generated from the TOP entry (`...token_stack[-1]`) and that entry
    is removed (`del ...token_stack[-1]`) later in the same block before anything is pushed: an end token closes the most
    recently opened, still open block.  One obligation per call of generate_close_markdown_token_from_stack_token."""
    out = []
    for rel, full in _parser_files():
        for q, fn in enclosing_functions(parse(full)):
            for blk in [b for b in ast.walk(fn) if hasattr(b, "body") and isinstance(getattr(b, "body"), list)]:
                for field in ("body", "orelse", "finalbody"):
                    stmts = getattr(blk, field, None)
                    if not isinstance(stmts, list):
                        continue
                    for i, st in enumerate(stmts):
                        calls = [c for c in _walk_shallow(st) if isinstance(c, ast.Call) and isinstance(c.func, ast.Attribute)
                                 and c.func.attr == "generate_close_markdown_token_from_stack_token"]
                        for c in calls:
                            recv = c.func.value
                            top = isinstance(recv, ast.Subscript) and _ends_with_attr(recv.value, "token_stack") and _is_top_index(recv)
                            popped = False
                            for later in stmts[i + 1:]:
                                if any(isinstance(x, ast.Call) and isinstance(x.func, ast.Attribute) and x.func.attr in ("append", "extend", "insert")
                                       and _ends_with_attr(x.func.value, "token_stack") for x in ast.walk(later)):
                                    break
                                if isinstance(later, ast.Delete) and any(isinstance(t, ast.Subscript) and _ends_with_attr(t.value, "token_stack")
                                                                         and _is_top_index(t) for t in later.targets):
                                    popped = True
                                    break
                            out.append({"name": f"structural::C04::close_top_of_stack[{rel}::{q}@{c.lineno}]", "ok": top and popped,
                                        "info": "end token generated from token_stack[-1], which is then deleted",
                                        "detail": f"receiver {ast.unparse(recv)}; top={top}; followed by del [-1]={popped}"})
    if len(out) < 3:
        out.append({"name": "structural::C04::close_top_of_stack[coverage]", "ok": False, "undecided": True,
                    "info": "expected call sites not found", "detail": f"only {len(out)} sites"})
    return out


def _walk_shallow(stmt: ast.stmt):
    """nodes of a statement without descending into nested statement blocks (those are visited as blocks themselves)"""
    todo = [stmt]
    while todo:
        n = todo.pop()
        yield n
        for name, val in ast.iter_fields(n):
            if name in ("body", "orelse", "finalbody", "handlers") and isinstance(val, list) and val and isinstance(val[0], (ast.stmt, ast.ExceptHandler)):
                continue
            if isinstance(val, ast.AST):
                todo.append(val)
            elif isinstance(val, list):
                todo.extend(v for v in val if isinstance(v, ast.AST))


# ------------------------------------------------------------------------------------------------------------ C08
import json as _json
import re as _re

_SPECS = os.path.join(os.path.dirname(os.path.dirname(os.path.abspath(__file__))), "specs")


def _resolve_strings(expr: ast.expr, fn: ast.FunctionDef, cls: ast.ClassDef, tree: ast.Module, depth: int = 0):
    """the set of string constants an expression can evaluate to (None = cannot be resolved): constants; local names
    assigned only constants; parameters resolved at every call site in the class; attributes of a dataclass record resolved
    at every construction site of that dataclass in the module."""
    if depth > 4:
        return None
    if isinstance(expr, ast.Constant) and isinstance(expr.value, str):
        return {expr.value}
    if isinstance(expr, ast.Name):
        params = [a.arg for a in fn.args.posonlyargs + fn.args.args + fn.args.kwonlyargs]
        stores = [n for n in ast.walk(fn) if isinstance(n, ast.Assign) and any(isinstance(t, ast.Name) and t.id == expr.id for t in n.targets)]
        other = [n for n in ast.walk(fn) if isinstance(n, (ast.AugAssign, ast.AnnAssign, ast.For, ast.NamedExpr, ast.With))
                 and any(isinstance(x, ast.Name) and x.id == expr.id and isinstance(x.ctx, ast.Store) for x in ast.walk(n))]
        tuple_stores = [n for n in ast.walk(fn) if isinstance(n, ast.Assign)
                        and any(isinstance(t, (ast.Tuple, ast.List)) and any(isinstance(e, ast.Name) and e.id == expr.id for e in t.elts) for t in n.targets)]
        if other or tuple_stores:
            return None
        out = set()
        for s_ in stores:
            r = _resolve_strings(s_.value, fn, cls, tree, depth + 1)
            if r is None:
                return None
            out |= r
        if expr.id in params:
            pos = params.index(expr.id) - (1 if params and params[0] in ("self", "cls") else 0)
            sites = [c for m in cls.body if isinstance(m, ast.FunctionDef) for c in ast.walk(m)
                     if isinstance(c, ast.Call) and isinstance(c.func, ast.Attribute) and c.func.attr in (fn.name, f"_{cls.name}{fn.name}")]
            if not sites:
                return None
            for c in sites:
                arg = next((k.value for k in c.keywords if k.arg == expr.id), None)
                if arg is None and pos < len(c.args):
                    arg = c.args[pos]
                if arg is None:
                    dflt = fn.args.defaults
                    di = params.index(expr.id) - (len(params) - len(dflt))
                    arg = dflt[di] if 0 <= di < len(dflt) else None
                if arg is None:
                    return None
                caller = next(m for m in cls.body if isinstance(m, ast.FunctionDef) and any(x is c for x in ast.walk(m)))
                r = _resolve_strings(arg, caller, cls, tree, depth + 1)
                if r is None:
                    return None
                out |= r
        return out or None
    if isinstance(expr, ast.Attribute) and isinstance(expr.value, ast.Name):
        # record.field: every construction site of a dataclass of the module that has this field
        for dc in [n for n in tree.body if isinstance(n, ast.ClassDef)]:
            fields = [b.target.id for b in dc.body if isinstance(b, ast.AnnAssign) and isinstance(b.target, ast.Name)]
            if expr.attr not in fields:
                continue
            idx = fields.index(expr.attr)
            out, found = set(), False
            for m in ast.walk(tree):
                if isinstance(m, ast.Call) and isinstance(m.func, ast.Name) and m.func.id == dc.name:
                    found = True
                    arg = next((k.value for k in m.keywords if k.arg == expr.attr), m.args[idx] if idx < len(m.args) else None)
                    owner = next(((c2, f2) for c2 in tree.body if isinstance(c2, ast.ClassDef) for f2 in c2.body
                                  if isinstance(f2, ast.FunctionDef) and any(x is m for x in ast.walk(f2))), None)
                    if arg is None or owner is None:
                        return None
                    r = _resolve_strings(arg, owner[1], owner[0], tree, depth + 1)
                    if r is None:
                        return None
                    out |= r
            return out if found else None
    return None


@check("C08")
def fix_vocabulary():
    """Closure of the fix vocabulary: every (rule, token field) pair a rule can pass to register_fix_token_request -- the field
    name resolved to its set of possible constants through locals, parameters (all call sites) and queued Fixer records (all
    construction sites) -- is in the whitelist /verif/specs/fix_vocabulary.json (which rule may edit which field, and which of
    those fields carry document text).  A rule that starts to edit a field outside its list (e.g. link_uri, or a text field
    from a whitespace rule) fails.  One obligation per call site; replacement requests are allowed only for the listed rules."""
    spec = _json.load(open(os.path.join(_SPECS, "fix_vocabulary.json")))
    allowed, replacers = spec["fields"], set(spec["replace_tokens"])
    out, seen_rules = [], set()
    for rel, full in py_files("pymarkdown/plugins"):
        tree = parse(full)
        for cls in [n for n in tree.body if isinstance(n, ast.ClassDef)]:
            for fn in [m for m in cls.body if isinstance(m, ast.FunctionDef)]:
                for c in ast.walk(fn):
                    if not (isinstance(c, ast.Call) and isinstance(c.func, ast.Attribute)):
                        continue
                    rule = os.path.basename(rel)[:-3]
                    if c.func.attr == "register_replace_tokens_request":
                        out.append({"name": f"structural::C08::fix_vocabulary[{rule}@{c.lineno}:replace]", "ok": rule in replacers,
                                    "info": "token-range replacement only from the listed rules", "detail": f"{rel}:{c.lineno}"})
                    if c.func.attr != "register_fix_token_request":
                        continue
                    seen_rules.add(rule)
                    arg = next((k.value for k in c.keywords if k.arg == "field_name"), c.args[3] if len(c.args) > 3 else None)
                    vals = _resolve_strings(arg, fn, cls, tree) if arg is not None else None
                    if vals is None:
                        out.append({"name": f"structural::C08::fix_vocabulary[{rule}@{c.lineno}]", "ok": False, "undecided": True,
                                    "info": "field name of a fix request", "detail": f"cannot resolve `{ast.unparse(arg) if arg else '?'}` at {rel}:{c.lineno}"})
                        continue
                    extra = sorted(v for v in vals if v not in allowed.get(rule, []))
                    out.append({"name": f"structural::C08::fix_vocabulary[{rule}@{c.lineno}]", "ok": not extra,
                                "info": f"{rule} may only edit {allowed.get(rule, [])}",
                                "detail": f"{rel}:{c.lineno} edits {sorted(vals)}; outside the whitelist: {extra}"})
    missing = sorted(set(allowed) - seen_rules)
    out.append({"name": "structural::C08::fix_vocabulary[coverage]", "ok": not missing and len(out) >= 40,
                "info": "every whitelisted rule still issues fix requests (the whitelist is not stale)", "detail": f"rules without a request: {missing}; sites: {len(out)}"})
    return out


@check("C08")
def regenerator_sentinels():
    """Every character the Markdown regenerator deletes unconditionally from its output (the `.replace(c, "")` chain at the end
    of TransformToMarkdown.transform) can never be document text: it must be one of the characters the parser escapes or
    removes from document text (ParserHelper's escape / control characters).  Otherwise any token-level fix silently drops
    that character from the user's document.  One obligation per deleted character."""
    rel = "pymarkdown/transform_markdown/transform_to_markdown.py"
    tree = parse(os.path.join(front.REPO_ROOT, rel))
    deleted = []
    for q, fn in enclosing_functions(tree):
        if q != "TransformToMarkdown.transform":
            continue
        for c in ast.walk(fn):
            if isinstance(c, ast.Call) and isinstance(c.func, ast.Attribute) and c.func.attr == "replace" and len(c.args) == 2 \
                    and isinstance(c.args[1], ast.Constant) and c.args[1].value == "":
                a0 = c.args[0]
                if isinstance(a0, ast.Constant):
                    deleted.append((a0.value, c.lineno))
                elif isinstance(a0, ast.Attribute) and isinstance(a0.value, ast.Name) and a0.value.id == "ParserLogger":
                    pl = parse(os.path.join(front.REPO_ROOT, "pymarkdown/general/parser_logger.py"))
                    val = next((n.value.value for n in ast.walk(pl) if isinstance(n, ast.Assign) and isinstance(n.value, ast.Constant)
                                and any(isinstance(t, ast.Name) and t.id == a0.attr for t in n.targets)), None)
                    deleted.append((val if isinstance(val, str) else None, c.lineno))
                else:
                    deleted.append((None, c.lineno))
    ph = parse(os.path.join(front.REPO_ROOT, "pymarkdown/general/parser_helper.py"))
    reserved = set()
    for n in ast.walk(ph):
        if isinstance(n, ast.Assign) and isinstance(n.value, ast.Constant) and isinstance(n.value.value, str) and len(n.value.value) == 1 \
                and any(isinstance(t, ast.Name) and _re.search(r"(backspace|alert|whitespace_split|replace_noop|blech|escape)_character$", t.id) for t in n.targets):
            reserved.add(n.value.value)
    out = []
    for ch, line in deleted:
        ok = ch is not None and all(x in reserved for x in ch)
        shown = "non-literal" if ch is None else "+".join(f"U+{ord(x):04X}" for x in ch)
        out.append({"name": f"structural::C08::sentinels[{shown}]", "ok": ok,
                    "info": "a character deleted from every regenerated document is reserved by the parser (never document text)",
                    "detail": f"{rel}:{line} deletes {shown}; reserved by ParserHelper: {sorted('U+%04X' % ord(x) for x in reserved)}"})
    if not deleted:
        out.append({"name": "structural::C08::sentinels[coverage]", "ok": True, "info": "the regenerator deletes no character unconditionally", "detail": ""})
    return out


@check("C14", "C17")
def protected_rule_flags():
    """RulePlugin's four is_*_implemented_in_plugin flags are stored only by RulePlugin.__init__ and
    RulePlugin.set_configuration_map (backs the assumed contract of a rule's initialize_from_config: it cannot change into which
    dispatch lists the rule is entered)"""
    names = [f"__is_{n}_implemented_in_plugin" for n in ("next_token", "next_line", "completed_file", "starting_new_file")]
    names += ["_RulePlugin" + n for n in names]
    sites = store_sites(names)
    bad = [s for s in sites if not (s[0] == "pymarkdown/plugin_manager/rule_plugin.py" and s[1] in ("RulePlugin.__init__", "RulePlugin.set_configuration_map"))]
    return [{"name": "structural::C14::protected[rule flags]", "ok": bool(sites) and not bad, "info": protected_rule_flags.__doc__,
             "detail": f"store sites: {sites}; unexpected: {bad}"}]


@check("C08")
def modify_token_frames():
    """`_modify_token` of every token class: the branch for field "f" is guarded by `field_name == "f" and isinstance(field_value, T)`,
    stores the requested value into exactly the attribute that the property `f` of that class reads, calls only helpers that
    write nothing but the derived extra_data string, and returns True; anything else falls through to `return False` or to the
    base class.  So a fix request changes only the field it names (value-for-value) and an unknown field or ill-typed value
    changes nothing.  One obligation per (class, field)."""
    out = []
    files = [(rel, full) for rel, full in py_files() if rel.startswith(("pymarkdown/tokens/", "pymarkdown/extensions/"))]
    for rel, full in files:
        tree = parse(full)
        for cls in [n for n in tree.body if isinstance(n, ast.ClassDef)]:
            fn = next((m for m in cls.body if isinstance(m, ast.FunctionDef) and m.name == "_modify_token"), None)
            if fn is None:
                continue
            props = {}
            for m in cls.body:
                if isinstance(m, ast.FunctionDef) and any(isinstance(d, ast.Name) and d.id == "property" for d in m.decorator_list):
                    rets = [s for s in m.body if isinstance(s, ast.Return)]
                    if rets and isinstance(rets[-1].value, ast.Attribute) and isinstance(rets[-1].value.value, ast.Name) and rets[-1].value.value.id == "self":
                        props[m.name] = rets[-1].value.attr
            pure_helpers = set()
            for m in cls.body:
                if isinstance(m, ast.FunctionDef):
                    stores = [a for a in ast.walk(m) if isinstance(a, ast.Attribute) and isinstance(a.ctx, (ast.Store, ast.Del))]
                    if not stores:
                        pure_helpers.add(m.name)
            body = [s for s in fn.body if not (isinstance(s, ast.Expr) and isinstance(s.value, ast.Constant))]
            last = body[-1] if body else None
            tail_ok = isinstance(last, ast.Return) and (
                (isinstance(last.value, ast.Constant) and last.value.value is False)
                or (isinstance(last.value, ast.Call) and ast.unparse(last.value) == "super()._modify_token(field_name, field_value)"))
            out.append({"name": f"structural::C08::modify_token[{cls.name}:fallthrough]", "ok": tail_ok and all(isinstance(s, ast.If) for s in body[:-1]),
                        "info": "unknown field / ill-typed value: nothing is changed, result False or the base class decides",
                        "detail": f"{rel}:{fn.lineno} last statement `{ast.unparse(last) if last else ''}`"})
            for st in body[:-1]:
                if not isinstance(st, ast.If):
                    continue
                conj = st.test.values if isinstance(st.test, ast.BoolOp) and isinstance(st.test.op, ast.And) else [st.test]
                fld = next((c.comparators[0].value for c in conj if isinstance(c, ast.Compare) and isinstance(c.left, ast.Name) and c.left.id == "field_name"
                            and len(c.ops) == 1 and isinstance(c.ops[0], ast.Eq) and isinstance(c.comparators[0], ast.Constant)), None)
                typed = any(isinstance(c, ast.Call) and isinstance(c.func, ast.Name) and c.func.id == "isinstance" and isinstance(c.args[0], ast.Name)
                            and c.args[0].id == "field_value" for c in conj)
                problems = []
                if fld is None or not typed or st.orelse:
                    problems.append("guard is not `field_name == <literal> and isinstance(field_value, T)`")
                stores = [a for s in st.body for a in ast.walk(s) if isinstance(a, ast.Attribute) and isinstance(a.ctx, (ast.Store, ast.Del))]
                want = props.get(fld) or (f"__{fld}" if fld else None)     # no property of that name: the private attribute of the same name
                first = st.body[0] if st.body else None
                if not (isinstance(first, ast.Assign) and len(first.targets) == 1 and isinstance(first.targets[0], ast.Attribute)
                        and isinstance(first.value, ast.Name) and first.value.id == "field_value" and want is not None and first.targets[0].attr == want):
                    problems.append(f"first statement does not store field_value into self.{want} (the attribute property `{fld}` reads)")
                if len(stores) != 1:
                    problems.append(f"{len(stores)} attribute stores in the branch")
                for s in st.body[1:-1]:
                    calls = [c for c in ast.walk(s) if isinstance(c, ast.Call)]
                    for c in calls:
                        nm = c.func.attr if isinstance(c.func, ast.Attribute) else getattr(c.func, "id", "?")
                        mangled_ok = nm in pure_helpers or nm in ("_set_extra_data", "super") or (nm.startswith("__") and nm in pure_helpers)
                        if not mangled_ok:
                            problems.append(f"calls {nm}, which stores attributes")
                    if not isinstance(s, (ast.Expr, ast.Assign)) or (isinstance(s, ast.Assign) and not all(isinstance(t, ast.Name) for t in s.targets)):
                        problems.append(f"unexpected statement `{ast.unparse(s)[:60]}`")
                if not (st.body and isinstance(st.body[-1], ast.Return) and isinstance(st.body[-1].value, ast.Constant) and st.body[-1].value.value is True):
                    problems.append("branch does not end with `return True`")
                out.append({"name": f"structural::C08::modify_token[{cls.name}.{fld}]", "ok": not problems,
                            "info": f"fixing `{fld}` stores the requested value into the attribute behind `{fld}` and touches nothing else but the derived extra_data",
                            "detail": f"{rel}:{st.lineno} " + "; ".join(problems)})
    if len(out) < 40:
        out.append({"name": "structural::C08::modify_token[coverage]", "ok": False, "undecided": True, "info": "expected 15 classes", "detail": f"{len(out)} obligations"})
    return out


@check("C10")
def fix_consults_pragmas():
    """'A file whose scan shows no failure from a fix-capable rule is left byte-identical': a failure that a pragma suppresses in
    scan mode must not be fixed either, so the fix passes have to compile the document's pragmas and consult them like the scan
    path does (FileScanHelper.__process_file_scan -> PluginManager.compile_pragmas; PluginManager.log_scan_failure).  Obligation:
    FileScanHelper.__process_file_fix_tokens and __process_file_fix_lines (or a function they call in file_scan_helper.py) call
    compile_pragmas.  One obligation per fix pass function."""
    rel = "pymarkdown/file_scan_helper.py"
    tree = parse(os.path.join(front.REPO_ROOT, rel))
    fns = {q: fn for q, fn in enclosing_functions(tree)}

    def reaches(q, seen):
        fn = fns.get(q)
        if fn is None or q in seen:
            return False
        seen.add(q)
        for c in ast.walk(fn):
            if isinstance(c, ast.Call) and isinstance(c.func, ast.Attribute):
                if c.func.attr == "compile_pragmas":
                    return True
                callee = c.func.attr
                for cand in (f"FileScanHelper.{callee}", f"FileScanHelper._FileScanHelper{callee}"):
                    if cand in fns and reaches(cand, seen):
                        return True
        return False

    out = []
    for q in ("FileScanHelper.__process_file_fix_tokens", "FileScanHelper.__process_file_fix_lines"):
        ok = reaches(q, set())
        out.append({"name": f"structural::C10::fix_consults_pragmas[{q}]", "ok": ok and q in fns,
                    "info": "the fix pass compiles the document's pragmas (a suppressed failure must not be fixed)",
                    "detail": f"{rel}: {q} {'reaches' if ok else 'never reaches'} PluginManager.compile_pragmas"})
    # the scan path is the positive control: the same search must find the call there
    ctrl = reaches("FileScanHelper.__process_file_scan", set())
    out.append({"name": "structural::C10::fix_consults_pragmas[control:__process_file_scan]", "ok": ctrl,
                "info": "control: the scan path compiles the pragmas", "detail": f"found={ctrl}"})
    return out


@check("C14", "C09", "C08", "C10")
def protected_context_mode():
    """PluginScanContext.__in_fix_mode is stored only by PluginScanContext.__init__ (backs its PROTECTED_FIELDS entry: whether a
    context fixes or reports is decided when it is created and never changes)"""
    sites = store_sites(["__in_fix_mode", "_PluginScanContext__in_fix_mode"])
    bad = [s for s in sites if not (s[0] == "pymarkdown/plugin_manager/plugin_scan_context.py" and s[1] == "PluginScanContext.__init__")]
    return [{"name": "structural::C14::protected[context fix mode]", "ok": bool(sites) and not bad, "info": protected_context_mode.__doc__,
             "detail": f"store sites: {sites}; unexpected: {bad}"}]
