"""C15 / C10 / C18 -- FileScanHelper: failures are contained, fix reporting is truthful (DESIGN.md 5/C15, C10)."""
from pyvc.spec import Assumed, Contract, Loop, Raises, register
from .exit_codes import MAIN, SCHEME, SYSERR

FSH = "pymarkdown/file_scan_helper.py::FileScanHelper."
MONO = "self.__plugins.number_of_scan_failures >= old(self.__plugins.number_of_scan_failures)"

# The Callable field FileScanHelper.__handle_error is bound to PyMarkdownLint.__handle_error at the only
# construction site in pymarkdown/ (main.py, __scan_files_if_no_errors); checked by the structural obligation
# `C15::handle_error_binding` in structural.py.
HANDLE_ERROR = {"self.__handle_error": MAIN + "__handle_error"}

register(Contract(
    key=FSH + "__handle_scan_error", properties=["C15", "C18"],
    requires=[f"scheme_ok({SCHEME})"],
    ensures=["self.__continue_on_error and allow_shortcut"],
    raises=[Raises("SystemExit", when="not (self.__continue_on_error and allow_shortcut)", code=SYSERR)],
    modifies=[],
    calls=HANDLE_ERROR,
))

PM = "pymarkdown/plugin_manager/plugin_manager.py::PluginManager."
PSC = "pymarkdown/plugin_manager/plugin_scan_context.py::PluginScanContext."
FSP = "pymarkdown/general/source_providers.py::FileSourceProvider."
TM = "pymarkdown/general/tokenized_markdown.py::TokenizedMarkdown."

register(Contract(
    key=FSH + "__scan_specific_file", properties=["C15", "C18"],
    requires=[f"scheme_ok({SCHEME})", "not g_done"],
    ghost={"g_done": "bool"},  # set by the normal return of __scan_file: "the file was scanned to completion"
    ensures=["result == g_done", MONO],
    xensures={"BaseException": [MONO]},
    # C15: a file that cannot be read or decoded is a per-file failure like a failing rule: it never escapes as OSError / UnicodeError
    # (D26 fixed) but goes through __handle_scan_error, which names the file: the result is False or SystemExit(SYSTEM_ERROR)
    raises=[Raises("SystemExit", code=SYSERR),
            Raises("BadTokenizationError", when="not self.__continue_on_error")],
    modifies=["*", "number_of_scan_failures"],
    calls={"self.__scan_file": (FSH + "__scan_file", ["g_done = True"])},
))


# ---------------------------------------------------------------------------------------------------------
# C14: life-cycle at engine level.  Ghost `calls`: one event per dispatcher call made by FileScanHelper,
# recorded by call-site instrumentation (ghost only).  PluginManager's own contracts (plugin_engine.py) turn
# each dispatcher call into one event per enabled rule, in list order.
CALLS = {"calls": "List[Any]"}
CKEEP = "forall(lambda j: calls[j] == old(calls[j]), 0, old(len(calls)))"
SP_LINES = "source_provider._FileSourceProvider__read_lines"
SP_INDEX = "source_provider._FileSourceProvider__read_index"
REPORTED = "context._PluginScanContext__reported"
PLISTS = ["self.__plugins._PluginManager__enabled_plugins_for_next_token", "self.__plugins._PluginManager__enabled_plugins_for_next_line",
          "self.__plugins._PluginManager__enabled_plugins_for_completed_file"]
SCAN_CTX = ("context.current_fix_line is None and not context.in_fix_mode and context._PluginScanContext__fix_token_map is None "
            "and context._PluginScanContext__replace_token_list is None and "
            + " and ".join(f"{REPORTED} is not {p}" for p in PLISTS + ["source_provider._FileSourceProvider__read_lines"]))

SCAN_FRAME = (f"same_except('$list', {REPORTED}) and same_except('$dict') and same_except('_PluginScanContext__current_fix_line') "
              f"and same_except('_PluginScanContext__last_line_fixed') and same_except('line_number', context)")

register(Contract(
    key=FSH + "__process_lines_in_file", properties=["C14", "C07", "C15"],
    ghost=CALLS,
    requires=[f"{SP_INDEX} == 0", f"implies(context_map is None, {SCAN_CTX})", f"{SP_LINES} is not calls"],
    calls={
        "self.__plugins.next_line": (PM + "next_line", ["calls.append(('line', context, line_number, line, is_last_line_in_file))"]),
        "self.__plugins.completed_file": (PM + "completed_file", ["calls.append(('done', context, line_number))"]),
    },
    ensures=[f"implies(context_map is None, len(calls) == old(len(calls)) + len({SP_LINES}) + 1)",
             f"implies(context_map is None, forall(lambda k: calls[old(len(calls)) + k] == ('line', context, k + 1, {SP_LINES}[k], k + 1 >= len({SP_LINES})), 0, len({SP_LINES})))",
             f"implies(context_map is None, calls[old(len(calls)) + len({SP_LINES})] == ('done', context, len({SP_LINES}) + 1))",
             f"implies(context_map is None, {CKEEP})",
             f"implies(context_map is None, len({SP_LINES}) == old(len({SP_LINES})))",
             f"implies(context_map is None, forall(lambda k: {SP_LINES}[k] is old({SP_LINES}[k]), 0, len({SP_LINES})))"],
    raises=[Raises("BadPluginError"), Raises("OSError", when="context_map is not None or context.in_fix_mode"),
            Raises("AssertionError", when="context_map is not None or context.in_fix_mode")],
    modifies=["$rule_state", "context._PluginScanContext__reported.$list", "context.line_number",
              "source_provider._FileSourceProvider__read_index", "calls.$list"],
    cmodifies=[("context_map is not None or context.in_fix_mode", ["*"])],
    loops={0: Loop(invariant=[
        f"line_number >= 1", f"{SP_INDEX} >= 0",
        f"implies(context_map is None and next_line is not None, {SP_INDEX} == line_number and line_number <= len({SP_LINES}) and next_line is {SP_LINES}[line_number - 1])",
        f"implies(context_map is None and next_line is None, line_number == len({SP_LINES}) + 1)",
        f"implies(context_map is None, len({SP_LINES}) == old(len({SP_LINES})))",
        f"implies(context_map is None, forall(lambda k: {SP_LINES}[k] is old({SP_LINES}[k]), 0, len({SP_LINES})))",
        f"implies(context_map is None, {SCAN_CTX})",
        f"implies(context_map is None, len(calls) == old(len(calls)) + line_number - 1)",
        f"implies(context_map is None, forall(lambda k: calls[old(len(calls)) + k] == ('line', context, k + 1, {SP_LINES}[k], k + 1 >= len({SP_LINES})), 0, line_number - 1))",
        f"implies(context_map is None, {CKEEP})",
        f"implies(context_map is None, {SCAN_FRAME})",
    ])},  # termination: the loop ends when the provider is exhausted (no variant stated: in fix mode the callee's frame is coarse)
))

TOKS = "actual_tokens"
HAS_PRAGMA = f"(len({TOKS}) > 0 and {TOKS}[len({TOKS}) - 1].is_pragma)"
NP = f"(1 if {HAS_PRAGMA} else 0)"          # number of 'pragmas' events
NT = f"(len({TOKS}) - {NP})"                # number of tokens delivered to rules
BASE = "old(len(calls))"

register(Contract(
    key=FSH + "__process_file_scan", properties=["C14", "C11", "C15"],
    ghost=CALLS,
    requires=[f"{SP_INDEX} == 0", SCAN_CTX, f"{SP_LINES} is not calls", f"{TOKS} is not {REPORTED}",
              f"{TOKS} is not {SP_LINES}",
              # the pragma token (if any) holds lines stored by PragmaExtension.look_for_pragmas
              f"implies({HAS_PRAGMA}, " + "forall_val(lambda k: implies(k in actual_tokens[len(actual_tokens) - 1]._PragmaToken__pragma_lines, k != 0 and pragma_line_ok(actual_tokens[len(actual_tokens) - 1]._PragmaToken__pragma_lines[k], k > 0)))" + ")"],
    calls={
        "self.__plugins.compile_pragmas": (PM + "compile_pragmas", ["calls.append(('pragmas', scan_file, pragma_lines))"]),
        "self.__plugins.next_token": (PM + "next_token", ["calls.append(('tok', context, token))"]),
        "self.__process_lines_in_file": FSH + "__process_lines_in_file",
    },
    ensures=[
        f"len(calls) == {BASE} + old({NP} + {NT} + len({SP_LINES})) + 1",
        # the pragma token is taken off the stream and compiled BEFORE any token is delivered; it is never delivered
        f"implies(old({HAS_PRAGMA}), calls[{BASE}] == ('pragmas', next_file_name, old({TOKS}[len({TOKS}) - 1]._PragmaToken__pragma_lines)))",
        f"forall(lambda k: calls[{BASE} + old({NP}) + k] == ('tok', context, old({TOKS}[k])), 0, old({NT}))",
        f"forall(lambda k: calls[{BASE} + old({NP} + {NT}) + k] == ('line', context, k + 1, old({SP_LINES}[k]), k + 1 >= old(len({SP_LINES}))), 0, old(len({SP_LINES})))",
        f"calls[{BASE} + old({NP} + {NT} + len({SP_LINES}))] == ('done', context, old(len({SP_LINES})) + 1)",
        CKEEP,
    ],
    raises=[Raises("BadPluginError")],
    modifies=["$rule_state", f"{REPORTED}.$list", "context.line_number", "source_provider._FileSourceProvider__read_index",
              "self.__plugins._PluginManager__document_pragmas.$dict", "self.__plugins._PluginManager__document_pragma_ranges.$list",
              "number_of_pragma_failures", "$presentation_state", "calls.$list"],
    loops={0: Loop(index="idx", invariant=[
        f"same_except('$list', {REPORTED}, old(self.__plugins._PluginManager__document_pragma_ranges)) and "
        f"same_except('$dict', old(self.__plugins._PluginManager__document_pragmas)) and same_except('_PluginScanContext__current_fix_line') "
        f"and same_except('_PluginScanContext__last_line_fixed') and same_except('line_number', context) "
        f"and same_except('_FileSourceProvider__read_index')",
        f"len(actual_tokens) == old({NT})", f"forall(lambda k: actual_tokens[k] is old({TOKS}[k]), 0, len(actual_tokens))",
        f"len(calls) == {BASE} + old({NP}) + idx",
        f"implies(old({HAS_PRAGMA}), calls[{BASE}] == ('pragmas', next_file_name, old({TOKS}[len({TOKS}) - 1]._PragmaToken__pragma_lines)))",
        f"forall(lambda k: calls[{BASE} + old({NP}) + k] == ('tok', context, actual_tokens[k]), 0, idx)",
        CKEEP, SCAN_CTX, f"{SP_INDEX} == 0", f"{SP_LINES} is old({SP_LINES})", f"actual_tokens is not {REPORTED}",
        f"len({SP_LINES}) == old(len({SP_LINES}))", f"forall(lambda k: {SP_LINES}[k] is old({SP_LINES}[k]), 0, len({SP_LINES}))",
    ])},
))

register(Contract(
    key=PM + "compile_pragmas", properties=["C11"],
    raises=[],
    modifies=["self.__document_pragmas.$dict", "self.__document_pragma_ranges.$list", "number_of_pragma_failures"],
))

# ---------------------------------------------------------------------------------------------------------
# C15 / C10 / C18: per-file outcomes are accumulated truthfully.
# Ghost g_succ / g_fix: one entry per processed file: did_succeed / did_fix_file as returned by the per-file
# function (call-site instrumentation); g_announced: files announced as "Fixed:" (assumed print_fix_message).
FILES = "files_to_scan"
register(Contract(
    key=FSH + "process_files_to_scan", properties=["C15", "C10", "C18"],
    # g_succ / g_fix: per processed file, did_succeed / did_fix_file as returned by the per-file function;
    # g_fixflag: file name -> did_fix_file;  g_announced: names printed as "Fixed: <name>"
    # g_nfail / g_nfix: how many of the processed files failed / were fixed
    ghost={"g_succ": "List[bool]", "g_fix": "List[bool]", "g_fixflag": "Dict[str, bool]", "g_announced": "Set[str]", "g_stdin_ok": "bool",
           "g_nfail": "int", "g_nfix": "int", "g_files": "Set[str]", "g_written": "Set[str]"},
    requires=[f"scheme_ok({SCHEME})", "is_empty(g_succ) and is_empty(g_fix) and is_empty(g_announced) and is_empty(g_fixflag)",
              "is_empty(g_files) and is_empty(g_written)", f"forall(lambda j: user_file({FILES}[j]), 0, len({FILES}))",
              "not g_stdin_ok", "g_nfail == 0 and g_nfix == 0", "implies(use_standard_in, args.primary_subparser != 'fix')",
              # C19 delivers a duplicate-free list (sorted(set(...)))
              f"forall(lambda a, b: implies(a < b, {FILES}[a] != {FILES}[b]), 0, len({FILES}))"],
    types={"args": "Namespace"},
    calls={
        "self.__scan_specific_file": (FSH + "__scan_specific_file", ["g_succ.append(result)", "g_fix.append(False)", "g_nfail = g_nfail + (0 if result else 1)"]),
        "self.__fix_specific_file": (FSH + "__fix_specific_file", ["g_succ.append(result[1])", "g_fix.append(result[0])", "g_fixflag[next_file] = result[0]",
                                                                   "g_nfail = g_nfail + (0 if result[1] else 1)", "g_nfix = g_nfix + (1 if result[0] else 0)"]),
        "self.__scan_from_stdin": FSH + "__scan_from_stdin",
    },
    ensures=[
        # every file is processed exactly once, in order (continue-on-error never skips a file)
        f"implies(not use_standard_in, len(g_succ) == old(len({FILES})) and len(g_fix) == old(len({FILES})))",
        # did_fail_any_file  <=>  some file did not succeed   (an error is never masked by later files)
        "implies(not use_standard_in, result[1] == (g_nfail > 0))",
        "implies(use_standard_in, result[1] == (not g_stdin_ok))",
        # did_fix_any_file  <=>  some file was fixed
        "implies(not use_standard_in, result[0] == (g_nfix > 0))",
        "implies(use_standard_in, result[0] == False and g_nfix == 0 and g_nfail == 0)",
        # "Fixed: f" is printed  <=>  the fixer reported f as fixed
        f"forall(lambda j: implies(g_fix[j], old({FILES}[j]) in g_announced), 0, len(g_fix))",
        "forall_val(lambda x: implies(x in g_announced, x in g_fixflag and g_fixflag[x]))",
        "implies(args.primary_subparser != 'fix', len(g_announced) == 0)",
        # C10: scan / scan-stdin never overwrite a file and leave no temporary file; fix leaves no temporary file
        "implies(args.primary_subparser != 'fix', forall_val(lambda x: x not in g_written))",
        "forall_val(lambda x: x not in g_files)",
        # only files of the argument list are ever overwritten
        f"forall_val(lambda x: implies(x in g_written, exists(lambda j: old({FILES}[j]) == x, 0, old(len({FILES})))))",
        MONO,
    ],
    xensures={"BaseException": [MONO]},
    raises=[Raises("SystemExit", code=SYSERR), Raises("BadTokenizationError", when="not args.continue_on_error"),
            Raises("OSError"), Raises("UnicodeError"), Raises("AssertionError"), Raises("ValueError"), Raises("KeyError")],
    modifies=["*", "__continue_on_error", "g_stdin_ok", "number_of_scan_failures", "g_files.$dict", "g_written.$dict"],
    loops={0: Loop(index="idx", frozen_iter="files_to_scan is the list built by ApplicationFileScanner.determine_files_to_scan; it is "
                   "passed only to process_files_to_scan and never stored (structural obligation C15::files_list_not_aliased)",
                   invariant=[
        "len(g_succ) == idx and len(g_fix) == idx",
        "did_fail_any_file == (g_nfail > 0)", "g_nfail >= 0", "g_nfix >= 0",
        "did_fix_any_file == (g_nfix > 0)",
        f"forall(lambda j: implies(g_fix[j], old({FILES}[j]) in g_announced), 0, idx)",
        "forall_val(lambda x: implies(x in g_announced, x in g_fixflag and g_fixflag[x]))",
        f"forall(lambda k: old({FILES}[k]) not in g_fixflag, idx, old(len({FILES})))",
        "implies(not in_fix_mode, len(g_announced) == 0)",
        f"scheme_ok({SCHEME})", "self.__continue_on_error == args.continue_on_error", MONO, "self.__plugins is old(self.__plugins)",
        "forall_val(lambda x: x not in g_files)", "implies(not in_fix_mode, forall_val(lambda x: x not in g_written))",
        f"forall_val(lambda x: implies(x in g_written, exists(lambda j: old({FILES}[j]) == x, 0, idx)))",
    ])},
))

register(Contract(
    key=FSH + "__scan_from_stdin", properties=["C15", "C10", "C16", "C18"],
    ghost={"g_stdin_ok": "bool", "g_files": "Set[str]", "g_spool": "List[str]", "g_scanned": "List[Any]"},
    requires=[f"scheme_ok({SCHEME})", "not g_stdin_ok", "is_empty(g_spool)", "is_empty(g_scanned)"],
    types={"args": "Namespace", "outfile": "TempFile"},
    calls={"self.__scan_specific_file": (FSH + "__scan_specific_file", ["g_stdin_ok = result", "g_scanned.append((next_file, next_file_name))"]),
           "outfile.write": ("TempFile.write", ["g_spool.append(text)"]),
           # C16: the spool is read back as strict utf-8 by FileSourceProvider, so it must be WRITTEN as utf-8 -- not in the locale's
           # encoding (D20: under a non-UTF-8 locale stdin / scan_string could not carry what a file can)
           "tempfile.NamedTemporaryFile": Assumed("tempfile.NamedTemporaryFile[spool of standard input]", params=["mode", "encoding", "delete"],
                                                  returns="TempFile", fresh_result=True, raises=[Raises("OSError")],
                                                  requires=["encoding == 'utf-8'", "mode == 'wt'", "delete == False"],
                                                  ensures=["result.name not in g_files", "len(result.name) > 0"], effects=["g_files.add(result.name)"],
                                                  why="creates a new, uniquely named file (name not in use) and returns an open text handle")},
    ensures=["forall_val(lambda x: (x in g_files) == old(x in g_files))",       # C10/C15: the spool file is removed on every normal exit
             "result == g_stdin_ok", MONO,              # the outcome of the scan of the spooled input is handed back
             # C16: the string given through the API (or, without one, every line of standard input, in order) is spooled unchanged,
             # and the spool file is then scanned by the SAME per-file function as a named file; only the reported name differs
             "implies(string_to_scan is not None and len(string_to_scan) > 0, len(g_spool) == 1 and g_spool[0] is string_to_scan)",
             "implies(string_to_scan is None or len(string_to_scan) == 0, len(g_spool) == old(len(sys.stdin)) and "
             "forall(lambda k: g_spool[k] is old(sys.stdin[k]), 0, old(len(sys.stdin))))",
             "len(g_scanned) <= 1",
             "implies(len(g_scanned) == 1, g_scanned[0][1] == ('stdin' if string_to_scan is None else 'in-memory'))"],
    xensures={"BaseException": ["forall_val(lambda x: (x in g_files) == old(x in g_files))", MONO]},  # ... and on every exceptional exit
    raises=[Raises("SystemExit", code=SYSERR), Raises("BadTokenizationError", when="not self.__continue_on_error"),
            Raises("UnicodeError"), Raises("ValueError")],
    modifies=["*", "g_stdin_ok", "g_files.$dict", "number_of_scan_failures", "g_spool.$list", "g_scanned.$list"],
    loops={0: Loop(index="idx", frozen_iter="sys.stdin is read once, front to back", invariant=[
        "len(g_spool) == idx", "forall(lambda k: g_spool[k] is old(sys.stdin[k]), 0, idx)", "is_empty(g_scanned)", "not g_stdin_ok",
        "temporary_file is outfile.name", "temporary_file in g_files", "forall_val(lambda x: implies(x != temporary_file, (x in g_files) == old(x in g_files)))",
        "not old(temporary_file in g_files)"])},
))

FIX_RAISES = [Raises("BadPluginError"), Raises("BadPluginFixError"), Raises("BadTokenizationError"), Raises("OSError"),
              Raises("UnicodeError"), Raises("AssertionError")]

register(Contract(
    key=FSH + "__fix_specific_file", properties=["C15", "C10", "C18"],
    ghost={"g_done": "bool", "g_ret": "bool", "g_files": "Set[str]", "g_written": "Set[str]"},
    requires=[f"scheme_ok({SCHEME})", "not g_done", "next_file not in g_files", "user_file(next_file)"],
    calls={"self.__process_file_fix": (FSH + "__process_file_fix", ["g_done = True", "g_ret = result"])},
    ensures=["result[1] == g_done",                      # did_succeed <=> the fix of this file ran to completion
             "implies(result[1], result[0] == g_ret)",   # did_fix_file is what the fixer reported
             "implies(not result[1], not result[0])",    # a file whose fix failed is never reported as fixed
             # C10: the file's bytes were overwritten  <=>  it is reported as fixed (D8: not when a later fix level fails)
             "(next_file in g_written) == (old(next_file in g_written) or result[0])",
             "forall_val(lambda x: implies(x != next_file, (x in g_written) == old(x in g_written)))",
             "forall_val(lambda x: (x in g_files) == old(x in g_files))",     # C15: no temporary file is left, also when the fix failed
             MONO],
    xensures={"BaseException": [MONO, "forall_val(lambda x: (x in g_files) == old(x in g_files))"]},
    raises=[Raises("SystemExit", code=SYSERR), Raises("BadTokenizationError", when="not self.__continue_on_error"),
            Raises("AssertionError"), Raises("KeyError")],
    modifies=["*", "number_of_scan_failures", "g_files.$dict", "g_written.$dict"],
))


register(Contract(
    key=FSH + "__scan_file", properties=["C15", "C07", "C14"],
    ghost={"calls": "List[Any]", "g_ctx": "PluginScanContext", "g_tokens": "List[MarkdownToken]"},
    calls={
        "self.__plugins.starting_new_file": (PM + "starting_new_file", ["calls.append(('start', file_being_started))", "g_ctx = result"]),
        "self.__tokenizer.transform_from_provider": (TM + "transform_from_provider", ["g_tokens = result"]),
        "context.report_on_triggered_rules": (PSC + "report_on_triggered_rules", ["calls.append(('report', self))"]),
        "self.__process_file_scan": FSH + "__process_file_scan",
    },
    requires=[f"{SP_LINES} is not calls"],
    ensures=[
        # C14: start, [pragmas], every token of the parser's stream for THIS provider in order, every line, done, report
        "calls[old(len(calls))] == ('start', next_file_name)",
        f"len(calls) == old(len(calls)) + 1 + {NP.replace(TOKS, 'g_tokens')} + {NT.replace(TOKS, 'g_tokens')} + len({SP_LINES}) + 1 + 1",
        f"forall(lambda k: calls[old(len(calls)) + 1 + {NP.replace(TOKS, 'g_tokens')} + k] == ('tok', g_ctx, g_tokens[k]), 0, {NT.replace(TOKS, 'g_tokens')})",
        "calls[len(calls) - 1] == ('report', g_ctx)",
        f"calls[len(calls) - 2] == ('done', g_ctx, len({SP_LINES}) + 1)",
        f"forall(lambda k: calls[len(calls) - 2 - len({SP_LINES}) + k] == ('line', g_ctx, k + 1, {SP_LINES}[k], k + 1 >= len({SP_LINES})), 0, len({SP_LINES}))",
        MONO,
    ],
    # C07: on EVERY exit after the file was started, the collected failures are reported exactly once
    xensures={"Exception": ["implies(len(calls) > old(len(calls)) + 1, calls[len(calls) - 1] == ('report', g_ctx))", MONO]},
    raises=[Raises("BadPluginError"), Raises("BadTokenizationError")],
    modifies=["*", "g_ctx", "g_tokens", "calls.$list", "number_of_scan_failures"],
))


# ---------------------------------------------------------------------------------------------------------
# C10 / C09 / C15: fix mode.  Ghost g_files: temporary files of this run that currently exist; g_written: targets of
# shutil.copyfile (the only call that changes a user's file).
import z3 as _z3
from pyvc.spec import spec_fn as _spec_fn
from pyvc.sym import V as _V, vbool as _vbool

_uf = _z3.Function("user_file", _z3.IntSort(), _z3.BoolSort())


@_spec_fn("user_file")
def user_file(ex, st, args):
    """user_file(path): the path names a file given by the user (as opposed to a temporary file created by this run)"""
    return _vbool(_uf(_V.s(args[0].z)))


FIXG = {"g_files": "Set[str]", "g_written": "Set[str]"}
TMPNAME = Assumed("FileScanHelper.__get_temporary_file_name", returns="str", pure=True,
                  ensures=["result not in g_files", "len(result) > 0", "not user_file(result)"],
                  why="NamedTemporaryFile().name after the handle is closed: a fresh path that does not exist (reserved name; the file is "
                      "created by the later open(name, 'wt'))")
OPEN_WT = Assumed("open(name, 'wt')", params=["file", "mode", "encoding"], returns="TextFile", fresh_result=True, raises=[Raises("OSError")],
                  effects=["g_files.add_if(mode == 'wt', file)"], pure=True,
                  why="open(): in mode 'wt' creates / truncates the file; in read modes creates nothing; returns a handle")

# (not registered: used as the call-site contract of __process_file_fix_pass; the function itself is under contract below)
FIX_TOKENS_ASSUMED = Assumed(FSH + "__process_file_fix_tokens", returns="Tuple[str, List[MarkdownToken], bool, Set[str]]",
                 raises=FIX_RAISES, modifies=["*", "number_of_scan_failures", "g_files.$dict"],
                 ensures=[MONO,
                          # either nothing was changed at token level and the original path is handed back, or the regenerated document
                          # was written to a new temporary file (now existing) and the token list is emptied
                          "(result[0] is next_file) or (result[0] in g_files and not old(result[0] in g_files) and not user_file(result[0]))",
                          "implies(result[0] is next_file, not result[2])",
                          "forall_val(lambda x: implies(x != result[0], (x in g_files) == old(x in g_files)))",
                          "implies(result[0] is next_file, forall_val(lambda x: (x in g_files) == old(x in g_files)))"],
                 xensures={"BaseException": [MONO, "forall_val(lambda x: (x in g_files) == old(x in g_files))"]},
                 ghost={"g_files": "Set[str]"},
                 why="token pass of fix mode (parser + rules + regenerator): out of reach (C08 covers its vocabulary).  Temp-file behaviour as "
                     "read from the code: the only file it creates is the one it returns; on failure before that point nothing is created "
                     "(NOT proved: __process_file_fix_tokens_apply_fixes writes the file last)")
import dataclasses as _dc
FIX_TOKENS_TRACED = _dc.replace(FIX_TOKENS_ASSUMED, effects=list(FIX_TOKENS_ASSUMED.effects) + ["g_tokfix = result[2]", "g_two = result[0]"])
register(Assumed(FSH + "__process_file_fix_rescan", returns="List[MarkdownToken]", fresh_result=True,
                 raises=[Raises("BadTokenizationError"), Raises("OSError"), Raises("UnicodeError")], modifies=["*"],
                 why="re-parse of the token-fixed temporary file (parser: opaque)"))

register(Contract(
    key=FSH + "__process_file_fix_lines", properties=["C10", "C15"],
    ghost={"g_files": "Set[str]"},
    calls={"open": OPEN_WT, "open.__exit__": Assumed("file.__exit__", pure=True, why="close"),
           "source_file.read": Assumed("file.read", returns="str", pure=True, why="debug dump of a file (only under -x-fix-debug)"),
           "self.__process_lines_in_file": FSH + "__process_lines_in_file"},
    requires=["temporary_file_name not in g_files"],
    ensures=["forall_val(lambda x: implies(x != temporary_file_name, (x in g_files) == old(x in g_files)))", MONO],
    xensures={"BaseException": ["forall_val(lambda x: implies(x != temporary_file_name, (x in g_files) == old(x in g_files)))", MONO]},
    raises=FIX_RAISES,
    modifies=["*", "number_of_scan_failures", "g_files.$dict"],
    types={"source_file": "TextFile"},
))

register(Contract(
    key=FSH + "__process_file_fix_pass", properties=["C10", "C15", "C09", "C08"],
    ghost=dict(FIXG, g_tokfix="bool", g_nrec="int", g_two="str"),
    calls={"self.__get_temporary_file_name": TMPNAME,
           "self.__process_file_fix_tokens": FIX_TOKENS_TRACED,
           "self.__process_file_fix_lines": (FSH + "__process_file_fix_lines", ["g_nrec = len(result[0])"]),
           "self.__process_file_fix_rescan": FSH + "__process_file_fix_rescan"},
    requires=["next_file not in g_files", "user_file(next_file)"],
    ensures=[
        # C10: the user's file is overwritten  <=>  the pass reports that something was fixed  <=>  line records or token fixes exist
        "result[0] == (g_nrec > 0 or g_tokfix)",
        "(next_file in g_written) == (old(next_file in g_written) or result[0])",
        "forall_val(lambda x: implies(x != next_file, (x in g_written) == old(x in g_written)))",
        # C15: no temporary file of the pass survives it
        "forall_val(lambda x: (x in g_files) == old(x in g_files))", MONO,
    ],
    xensures={"BaseException": ["forall_val(lambda x: (x in g_files) == old(x in g_files))",      # ... also when a rule or the parser fails
                                "forall_val(lambda x: implies(x != next_file, (x in g_written) == old(x in g_written)))", MONO],
              # C08 / C15: a pass that is cut short by a failing rule or by the parser has not touched the user's file -- never a
              # half-processed document (the copy back is the last step of a pass that completed)
              "BadPluginError": ["(next_file in g_written) == old(next_file in g_written)"],
              "BadTokenizationError": ["(next_file in g_written) == old(next_file in g_written)"]},
    raises=FIX_RAISES,
    modifies=["*", "number_of_scan_failures", "g_files.$dict", "g_written.$dict"],
))

# ------------------------------------------------------------------------------------------------ fix-level scheduler (C09 / C10)
register(Contract(
    key=FSH + "__process_file_fix_next_level", properties=["C09", "C10", "C15"],
    ghost=dict(FIXG, g_tok="Set[str]", g_line="Set[str]"),
    types={"plugins_by_fix_level": "Dict[int, List[str]]", "fixes_by_id": "Dict[str, FoundPlugin]", "fix_list": "List[str]", "collect_list": "List[str]",
           "trigger_set": "Set[str]", "new_minimum_fix_level": "Optional[int]"},
    calls={"self.__process_file_fix_pass": (FSH + "__process_file_fix_pass", ["g_tok = result[1]", "g_line = result[2]"])},
    requires=["next_file not in g_files", "user_file(next_file)"],
    ensures=[
        # C09: every rule of a higher level that triggered - in the token pass OR in the line pass - is taken into account: the next
        # level is at most its level, and processing continues
        "forall_val(lambda x: implies(x in g_tok or x in g_line, result[0] and result[2] <= fixes_by_id[x].plugin_fix_level))",
        # C09: the scheduler only ever moves to a strictly higher fix level, and stops when nothing of a higher level triggered
        "implies(result[0], result[2] > minimum_fix_level)", "implies(not result[0], result[2] == minimum_fix_level)",
        # C10: the file is overwritten in this pass iff the pass reports a fix
        "(next_file in g_written) == (old(next_file in g_written) or result[1])",
        "forall_val(lambda x: implies(x != next_file, (x in g_written) == old(x in g_written)))",
        "forall_val(lambda x: (x in g_files) == old(x in g_files))", MONO,
    ],
    xensures={"BaseException": ["forall_val(lambda x: (x in g_files) == old(x in g_files))",
                                "forall_val(lambda x: implies(x != next_file, (x in g_written) == old(x in g_written)))", MONO]},
    # the assert / lookup on the triggered ids relies on the rule engine reporting only ids of the collect list (not proved here)
    raises=FIX_RAISES + [Raises("KeyError")],
    modifies=["*", "number_of_scan_failures", "g_files.$dict", "g_written.$dict"],
    loops={1: Loop(index="idx", seq_name="trig_seq",
                   invariant=["new_minimum_fix_level is None or new_minimum_fix_level > minimum_fix_level",
                              "forall(lambda j: new_minimum_fix_level is not None and new_minimum_fix_level <= fixes_by_id[trig_seq[j]].plugin_fix_level, 0, idx)",
                              "forall_val(lambda x: (x in trigger_set) == (x in g_tok or x in g_line))",
                              "forall_val(lambda x: (x in g_files) == old(x in g_files))",
                              "(next_file in g_written) == (old(next_file in g_written) or did_anything_get_fixed_this_time)",
                              "forall_val(lambda x: implies(x != next_file, (x in g_written) == old(x in g_written)))", MONO])},
))

register(Contract(
    key=FSH + "__process_file_fix", properties=["C09", "C10", "C15"],
    ghost=FIXG,
    types={"plugins_by_fix_level": "Dict[int, List[str]]", "fixes_by_id": "Dict[str, FoundPlugin]", "level_list": "List[str]",
           "fix_plugins_with_levels": "List[Tuple[str, int]]"},
    calls={"self.__process_file_fix_next_level": FSH + "__process_file_fix_next_level"},
    requires=["next_file not in g_files", "user_file(next_file)"],
    ensures=[
        # C10: did_anything_get_fixed  <=>  the user's file was overwritten during this call; no other file is ever written
        "(next_file in g_written) == (old(next_file in g_written) or result)",
        "forall_val(lambda x: implies(x != next_file, (x in g_written) == old(x in g_written)))",
        "forall_val(lambda x: (x in g_files) == old(x in g_files))", MONO,
    ],
    xensures={"BaseException": ["forall_val(lambda x: (x in g_files) == old(x in g_files))",
                                "forall_val(lambda x: implies(x != next_file, (x in g_written) == old(x in g_written)))", MONO]},
    # C09: never fails internally: no ValueError from min() of an empty map, no KeyError from the level map
    raises=FIX_RAISES + [Raises("KeyError")],
    modifies=["*", "number_of_scan_failures", "g_files.$dict", "g_written.$dict"],
    loops={1: Loop(invariant=["forall_val(lambda x: (x in g_files) == old(x in g_files))",
                              "(next_file in g_written) == (old(next_file in g_written) or did_anything_get_fixed)",
                              "forall_val(lambda x: implies(x != next_file, (x in g_written) == old(x in g_written)))", MONO,
                              "self.__plugins is old(self.__plugins)"])},
))

# ------------------------------------------------------------------------------------------------ fix mode: token pass (C14 / C09)
# The token pass of a fix level honours the same life-cycle as a scan: both contexts are started (the fixing one for the rules of this
# level, the reporting one for the rules of higher levels), EVERY token of the document is then delivered exactly once, in order,
# through the dispatcher with the map rule id -> context, then completed_file once; the queued fixes are applied only afterwards,
# and only if there are any.  Ghost `calls` records the engine-level events.
from pyvc.spec import PROTECTED_FIELDS as _PFS
_PFS["_PluginScanContext__in_fix_mode"] = "stored only by PluginScanContext.__init__ (structural obligation protected_context_mode)"
SNF_T = Assumed(PM + "starting_new_file[token pass]", params=["file_being_started", "fix_mode", "temp_output", "fix_token_map", "constraint_id_list", "replace_tokens_list"],
                returns="PluginScanContext", fresh_result=True, raises=[Raises("BadPluginError")], modifies=["*"],
                ensures=["result.in_fix_mode == (fix_mode is not None and fix_mode)"],
                effects=["calls.append(('start', result, constraint_id_list))"],
                why="PluginManager.starting_new_file (own contract, C13/C14): a fresh context; fix_mode as given")
NT_T = Assumed(PM + "next_token[token pass]", params=["context", "token", "context_map"], raises=[Raises("BadPluginError")], modifies=["*"],
               effects=["calls.append(('tok', context, token, context_map))"], why="PluginManager.next_token (own contract, C07/C14)")
CF_T = Assumed(PM + "completed_file[token pass]", params=["context", "line_number", "context_map"], raises=[Raises("BadPluginError"), Raises("OSError"), Raises("AssertionError")],
               modifies=["*"], effects=["calls.append(('done', context, line_number, context_map))"], why="PluginManager.completed_file (own contract)")
APPLY_T = Assumed(FSH + "__process_file_fix_tokens_apply_fixes", returns="Tuple[str, List[MarkdownToken], bool]", fresh_result=True, modifies=["*"],
                  raises=[Raises("BadPluginFixError"), Raises("OSError"), Raises("ValueError"), Raises("IndexError"), Raises("KeyError"), Raises("AssertionError")],
                  effects=["calls.append(('apply', context, actual_tokens))"],
                  why="applies the queued token fixes (contracts in contracts/fixes.py), regenerates the Markdown and writes it to a new temporary file")
FSP_T = Assumed("FileSourceProvider[construct]", returns="FileSourceProvider", fresh_result=True, pure=True, raises=[Raises("OSError"), Raises("UnicodeError")],
                why="FileSourceProvider.__init__ (own contract, C14)")
TRANSFORM_T = Assumed(TM + "transform_from_provider[token pass]", params=["source_provider", "do_add_end_of_stream_token"], returns="List[MarkdownToken]", fresh_result=True,
                      raises=[Raises("BadTokenizationError")], modifies=["*"], effects=["g_toks = result", "g_ntok = len(result)"],
                      why="the parser: the token stream of the document (opaque)")
DBG_T = Assumed(FSH + "__print_file_in_debug_mode", pure=True, why="debug dump (only under -x-fix-debug)")
GETMAP = Assumed("PluginScanContext.get_fix_token_map", returns="Dict[MarkdownToken, List[FixTokenRecord]]", pure=True, why="getter")
GETREP = Assumed("PluginScanContext.get_replace_tokens_list", returns="List[ReplaceTokensRecord]", pure=True, why="getter")
GETTRIG = Assumed("PluginScanContext.get_triggered_rules", returns="Set[str]", fresh_result=True, pure=True, why="ids of the rules that reported into this context")
B0 = "old(len(calls))"
register(Contract(
    key=FSH + "__process_file_fix_tokens", properties=["C14", "C09"],
    ghost={"calls": "List[Any]", "g_toks": "List[Any]", "g_ntok": "int"},
    calls={"FileSourceProvider": FSP_T, "self.__tokenizer.transform_from_provider": TRANSFORM_T, "self.__plugins.starting_new_file": SNF_T,
           "self.__plugins.next_token": NT_T, "self.__plugins.completed_file": CF_T, "self.__process_file_fix_tokens_apply_fixes": APPLY_T,
           "self.__print_file_in_debug_mode": DBG_T, "fix_context.get_fix_token_map": GETMAP, "fix_context.get_replace_tokens_list": GETREP,
           "report_context.get_triggered_rules": GETTRIG},
    requires=["g_ntok == 0"],
    ensures=[
        f"len(calls) == {B0} + 2 + g_ntok + 1 or len(calls) == {B0} + 2 + g_ntok + 2",
        # two contexts: the fixing one limited to the rules of this level, the reporting one to the rules of the higher levels
        f"calls[{B0}][0] == 'start' and calls[{B0}][2] is fix_list and calls[{B0}][1]._PluginScanContext__in_fix_mode",
        f"calls[{B0} + 1][0] == 'start' and calls[{B0} + 1][2] is collect_list and not calls[{B0} + 1][1]._PluginScanContext__in_fix_mode",
        # every token, once, in order, to the fixing context together with the rule -> context map
        f"forall(lambda k: calls[{B0} + 2 + k][0] == 'tok' and calls[{B0} + 2 + k][1] is calls[{B0}][1], 0, g_ntok)",
        f"calls[{B0} + 2 + g_ntok][0] == 'done' and calls[{B0} + 2 + g_ntok][1] is calls[{B0}][1] and calls[{B0} + 2 + g_ntok][2] == -1",
        # fixes are applied after the whole stream was seen
        f"implies(len(calls) == {B0} + 2 + g_ntok + 2, calls[{B0} + 2 + g_ntok + 1][0] == 'apply' and calls[{B0} + 2 + g_ntok + 1][1] is calls[{B0}][1])",
        f"forall(lambda j: calls[j] == old(calls[j]), 0, {B0})",
    ],
    raises=FIX_RAISES + [Raises("ValueError"), Raises("IndexError"), Raises("KeyError")],
    modifies=["*", "calls.$list", "g_toks", "g_ntok"],
    loops={0: Loop(index="idx", invariant=[f"len(calls) == {B0} + 2", f"forall(lambda j: calls[j] == old(calls[j]), 0, {B0})",
                                           f"calls[{B0}][0] == 'start' and calls[{B0}][2] is fix_list and calls[{B0}][1] is fix_context and fix_context.in_fix_mode",
                                           f"calls[{B0} + 1][0] == 'start' and calls[{B0} + 1][2] is collect_list and calls[{B0} + 1][1] is report_context and not report_context.in_fix_mode",
                                           "g_ntok == len(actual_tokens)"]),
           1: Loop(index="idx", frozen_iter="the token list handed to the rules is not changed while it is walked (rules only see tokens, never the list)",
                   invariant=[f"len(calls) == {B0} + 2 + idx", f"forall(lambda j: calls[j] == old(calls[j]), 0, {B0})",
                              f"calls[{B0}][0] == 'start'", f"calls[{B0}][2] is fix_list", f"calls[{B0}][1] is fix_context", "fix_context.in_fix_mode",
                              f"calls[{B0} + 1][0] == 'start'", f"calls[{B0} + 1][2] is collect_list", f"calls[{B0} + 1][1] is report_context", "not report_context.in_fix_mode",
                              f"forall(lambda k: calls[{B0} + 2 + k][0] == 'tok' and calls[{B0} + 2 + k][1] is fix_context, 0, idx)"])},
))
