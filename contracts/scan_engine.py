"""C15 / C10 / C18 -- FileScanHelper: failures are contained, fix reporting is truthful (DESIGN.md 5/C15, C10)."""
from pyvc.spec import Assumed, Contract, Loop, Raises, register
from .exit_codes import MAIN, SCHEME, SYSERR

FSH = "pymarkdown/file_scan_helper.py::FileScanHelper."

# The Callable field FileScanHelper.__handle_error is bound to PyMarkdownLint.__handle_error at the only
# construction site in pymarkdown/ (main.py, __scan_files_if_no_errors); checked by the structural obligation
# `C15::handle_error_binding` in structural.py.
HANDLE_ERROR = {"self.__handle_error": MAIN + "__handle_error"}

register(Contract(
    key=FSH + "__handle_scan_error", properties=["C15", "C18"],
    requires=[f"scheme_ok({SCHEME})"],
    ensures=["self.__continue_on_error and allow_shortcut"],
    raises=[Raises("SystemExit", when="not (self.__continue_on_error and allow_shortcut)", code=SYSERR)],
    modifies=[],
    calls=HANDLE_ERROR,
))

PM = "pymarkdown/plugin_manager/plugin_manager.py::PluginManager."
PSC = "pymarkdown/plugin_manager/plugin_scan_context.py::PluginScanContext."
FSP = "pymarkdown/general/source_providers.py::FileSourceProvider."
TM = "pymarkdown/general/tokenized_markdown.py::TokenizedMarkdown."

register(Contract(
    key=FSH + "__scan_specific_file", properties=["C15", "C18"],
    requires=[f"scheme_ok({SCHEME})", "not g_done"],
    ghost={"g_done": "bool"},  # set by the normal return of __scan_file: "the file was scanned to completion"
    ensures=["result == g_done"],
    raises=[Raises("SystemExit", code=SYSERR),
            Raises("BadTokenizationError", when="not self.__continue_on_error"),
            Raises("OSError"), Raises("UnicodeError")],
    modifies=["*"],
    calls={"self.__scan_file": (FSH + "__scan_file", ["g_done = True"])},
))

register(Contract(
    key=FSH + "__scan_file", properties=["C15", "C07", "C14"],
    raises=[Raises("BadPluginError"), Raises("BadTokenizationError")],
    modifies=["*"],
))

# ---------------------------------------------------------------------------------------------------------
# C14: life-cycle at engine level.  Ghost `calls`: one event per dispatcher call made by FileScanHelper,
# recorded by call-site instrumentation (ghost only).  PluginManager's own contracts (plugin_engine.py) turn
# each dispatcher call into one event per enabled rule, in list order.
CALLS = {"calls": "List[Any]"}
CKEEP = "forall(lambda j: calls[j] == old(calls[j]), 0, old(len(calls)))"
SP_LINES = "source_provider._FileSourceProvider__read_lines"
SP_INDEX = "source_provider._FileSourceProvider__read_index"
REPORTED = "context._PluginScanContext__reported"
PLISTS = ["self.__plugins._PluginManager__enabled_plugins_for_next_token", "self.__plugins._PluginManager__enabled_plugins_for_next_line",
          "self.__plugins._PluginManager__enabled_plugins_for_completed_file"]
SCAN_CTX = ("context.current_fix_line is None and not context.in_fix_mode and context._PluginScanContext__fix_token_map is None "
            "and context._PluginScanContext__replace_token_list is None and "
            + " and ".join(f"{REPORTED} is not {p}" for p in PLISTS + ["source_provider._FileSourceProvider__read_lines"]))

SCAN_FRAME = (f"same_except('$list', {REPORTED}) and same_except('$dict') and same_except('_PluginScanContext__current_fix_line') "
              f"and same_except('_PluginScanContext__last_line_fixed') and same_except('line_number', context)")

register(Contract(
    key=FSH + "__process_lines_in_file", properties=["C14", "C07", "C15"],
    ghost=CALLS,
    requires=[f"{SP_INDEX} == 0", f"implies(context_map is None, {SCAN_CTX})", f"{SP_LINES} is not calls"],
    calls={
        "self.__plugins.next_line": (PM + "next_line", ["calls.append(('line', context, line_number, line, is_last_line_in_file))"]),
        "self.__plugins.completed_file": (PM + "completed_file", ["calls.append(('done', context, line_number))"]),
    },
    ensures=[f"implies(context_map is None, len(calls) == old(len(calls)) + len({SP_LINES}) + 1)",
             f"implies(context_map is None, forall(lambda k: calls[old(len(calls)) + k] == ('line', context, k + 1, {SP_LINES}[k], k + 1 >= len({SP_LINES})), 0, len({SP_LINES})))",
             f"implies(context_map is None, calls[old(len(calls)) + len({SP_LINES})] == ('done', context, len({SP_LINES}) + 1))",
             f"implies(context_map is None, {CKEEP})",
             f"implies(context_map is None, len({SP_LINES}) == old(len({SP_LINES})))",
             f"implies(context_map is None, forall(lambda k: {SP_LINES}[k] is old({SP_LINES}[k]), 0, len({SP_LINES})))"],
    raises=[Raises("BadPluginError"), Raises("OSError", when="context_map is not None or context.in_fix_mode"),
            Raises("AssertionError", when="context_map is not None or context.in_fix_mode")],
    modifies=["$rule_state", "context._PluginScanContext__reported.$list", "context.line_number",
              "source_provider._FileSourceProvider__read_index", "calls.$list"],
    cmodifies=[("context_map is not None or context.in_fix_mode", ["*"])],
    loops={0: Loop(invariant=[
        f"line_number >= 1", f"{SP_INDEX} >= 0",
        f"implies(context_map is None and next_line is not None, {SP_INDEX} == line_number and line_number <= len({SP_LINES}) and next_line is {SP_LINES}[line_number - 1])",
        f"implies(context_map is None and next_line is None, line_number == len({SP_LINES}) + 1)",
        f"implies(context_map is None, len({SP_LINES}) == old(len({SP_LINES})))",
        f"implies(context_map is None, forall(lambda k: {SP_LINES}[k] is old({SP_LINES}[k]), 0, len({SP_LINES})))",
        f"implies(context_map is None, {SCAN_CTX})",
        f"implies(context_map is None, len(calls) == old(len(calls)) + line_number - 1)",
        f"implies(context_map is None, forall(lambda k: calls[old(len(calls)) + k] == ('line', context, k + 1, {SP_LINES}[k], k + 1 >= len({SP_LINES})), 0, line_number - 1))",
        f"implies(context_map is None, {CKEEP})",
        f"implies(context_map is None, {SCAN_FRAME})",
    ])},  # termination: the loop ends when the provider is exhausted (no variant stated: in fix mode the callee's frame is coarse)
))

TOKS = "actual_tokens"
HAS_PRAGMA = f"(len({TOKS}) > 0 and {TOKS}[len({TOKS}) - 1].is_pragma)"
NP = f"(1 if {HAS_PRAGMA} else 0)"          # number of 'pragmas' events
NT = f"(len({TOKS}) - {NP})"                # number of tokens delivered to rules
BASE = "old(len(calls))"

register(Contract(
    key=FSH + "__process_file_scan", properties=["C14", "C11", "C15"],
    ghost=CALLS,
    requires=[f"{SP_INDEX} == 0", SCAN_CTX, f"{SP_LINES} is not calls", f"{TOKS} is not {REPORTED}",
              f"{TOKS} is not {SP_LINES}"],
    calls={
        "self.__plugins.compile_pragmas": (PM + "compile_pragmas", ["calls.append(('pragmas', scan_file, pragma_lines))"]),
        "self.__plugins.next_token": (PM + "next_token", ["calls.append(('tok', context, token))"]),
        "self.__process_lines_in_file": FSH + "__process_lines_in_file",
    },
    ensures=[
        f"len(calls) == {BASE} + old({NP} + {NT} + len({SP_LINES})) + 1",
        # the pragma token is taken off the stream and compiled BEFORE any token is delivered; it is never delivered
        f"implies(old({HAS_PRAGMA}), calls[{BASE}] == ('pragmas', next_file_name, old({TOKS}[len({TOKS}) - 1].pragma_lines)))",
        f"forall(lambda k: calls[{BASE} + old({NP}) + k] == ('tok', context, old({TOKS}[k])), 0, old({NT}))",
        f"forall(lambda k: calls[{BASE} + old({NP} + {NT}) + k] == ('line', context, k + 1, old({SP_LINES}[k]), k + 1 >= old(len({SP_LINES}))), 0, old(len({SP_LINES})))",
        f"calls[{BASE} + old({NP} + {NT} + len({SP_LINES}))] == ('done', context, old(len({SP_LINES})) + 1)",
        CKEEP,
    ],
    raises=[Raises("BadPluginError")],
    modifies=["*"],
    loops={0: Loop(index="idx", invariant=[
        f"len(actual_tokens) == old({NT})", f"forall(lambda k: actual_tokens[k] is old({TOKS}[k]), 0, len(actual_tokens))",
        f"len(calls) == {BASE} + old({NP}) + idx",
        f"implies(old({HAS_PRAGMA}), calls[{BASE}] == ('pragmas', next_file_name, old({TOKS}[len({TOKS}) - 1].pragma_lines)))",
        f"forall(lambda k: calls[{BASE} + old({NP}) + k] == ('tok', context, actual_tokens[k]), 0, idx)",
        CKEEP, SCAN_CTX, f"{SP_INDEX} == 0", f"{SP_LINES} is old({SP_LINES})", f"actual_tokens is not {REPORTED}",
        f"len({SP_LINES}) == old(len({SP_LINES}))", f"forall(lambda k: {SP_LINES}[k] is old({SP_LINES}[k]), 0, len({SP_LINES}))",
    ])},
))

register(Contract(
    key=PM + "compile_pragmas", properties=["C11"],
    raises=[],
    modifies=["self.__document_pragmas.$dict", "self.__document_pragma_ranges.$list", "number_of_pragma_failures"],
))
