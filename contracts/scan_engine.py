"""C15 / C10 / C18 -- FileScanHelper: failures are contained, fix reporting is truthful (DESIGN.md 5/C15, C10)."""
from pyvc.spec import Assumed, Contract, Loop, Raises, register
from .exit_codes import MAIN, SCHEME, SYSERR

FSH = "pymarkdown/file_scan_helper.py::FileScanHelper."

# The Callable field FileScanHelper.__handle_error is bound to PyMarkdownLint.__handle_error at the only
# construction site in pymarkdown/ (main.py, __scan_files_if_no_errors); checked by the structural obligation
# `C15::handle_error_binding` in structural.py.
HANDLE_ERROR = {"self.__handle_error": MAIN + "__handle_error"}

register(Contract(
    key=FSH + "__handle_scan_error", properties=["C15", "C18"],
    requires=[f"scheme_ok({SCHEME})"],
    ensures=["self.__continue_on_error and allow_shortcut"],
    raises=[Raises("SystemExit", when="not (self.__continue_on_error and allow_shortcut)", code=SYSERR)],
    modifies=[],
    calls=HANDLE_ERROR,
))

PM = "pymarkdown/plugin_manager/plugin_manager.py::PluginManager."
PSC = "pymarkdown/plugin_manager/plugin_scan_context.py::PluginScanContext."
FSP = "pymarkdown/general/source_providers.py::FileSourceProvider."
TM = "pymarkdown/general/tokenized_markdown.py::TokenizedMarkdown."

register(Contract(
    key=FSH + "__scan_specific_file", properties=["C15", "C18"],
    requires=[f"scheme_ok({SCHEME})", "not g_done"],
    ghost={"g_done": "bool"},  # set by the normal return of __scan_file: "the file was scanned to completion"
    ensures=["result == g_done"],
    raises=[Raises("SystemExit", code=SYSERR),
            Raises("BadTokenizationError", when="not self.__continue_on_error"),
            Raises("OSError"), Raises("UnicodeError")],
    modifies=["*"],
    calls={"self.__scan_file": (FSH + "__scan_file", ["g_done = True"])},
))

register(Contract(
    key=FSH + "__scan_file", properties=["C15", "C07", "C14"],
    raises=[Raises("BadPluginError"), Raises("BadTokenizationError")],
    modifies=["*"],
))
