"""C16 -- the Python API drives the same entry point with the command-line spelling of its state."""
from pyvc.spec import Assumed, Contract, Loop, Raises, register

API = "pymarkdown/api.py::PyMarkdownApi."
from pyvc.spec import REGISTRY as _R
_R["$fields"].types.update({
    "PyMarkdownApi._PyMarkdownApi__enable_stack_trace": "bool", "PyMarkdownApi._PyMarkdownApi__enable_strict_configuration": "bool",
    "PyMarkdownApi._PyMarkdownApi__inherit_logging": "bool", "PyMarkdownApi._PyMarkdownApi__log_file_path": "Optional[str]",
    "PyMarkdownApi._PyMarkdownApi__log_level": "str", "PyMarkdownApi._PyMarkdownApi__configuration_path": "Optional[str]",
    "PyMarkdownApi._PyMarkdownApi__set_properties": "List[str]", "PyMarkdownApi._PyMarkdownApi__plugin_paths_to_add": "List[str]",
    "PyMarkdownApi._PyMarkdownApi__enable_rule_identifiers": "List[str]", "PyMarkdownApi._PyMarkdownApi__disable_rule_identifiers": "List[str]",
})

S = "self.__"
N1 = f"(1 if {S}enable_stack_trace else 0)"
N2 = f"(1 if {S}enable_strict_configuration else 0)"
N3 = f"(0 if {S}inherit_logging else ((2 if {S}log_file_path else 0) + 2))"
N4 = f"(2 if {S}configuration_path else 0)"
B_SET = f"({N1} + {N2} + {N3} + {N4})"
B_PLUG = f"({B_SET} + 2 * len({S}set_properties))"
B_EN = f"({B_PLUG} + 2 * len({S}plugin_paths_to_add))"
N_EN = f"(2 if len({S}enable_rule_identifiers) > 0 else 0)"
N_DIS = f"(2 if len({S}disable_rule_identifiers) > 0 else 0)"



def prefix(v):
    return [
        f"implies({S}enable_stack_trace, {v}[0] == '--stack-trace')",
        f"implies({S}enable_strict_configuration, {v}[{N1}] == '--strict-config')",
        f"implies(not {S}inherit_logging, {v}[{N1} + {N2} + {N3} - 2] == '--log-level' and {v}[{N1} + {N2} + {N3} - 1] is {S}log_level)",
        f"implies(not {S}inherit_logging and {S}log_file_path, {v}[{N1} + {N2}] == '--log-file' and {v}[{N1} + {N2} + 1] is {S}log_file_path)",
        f"implies({S}configuration_path, {v}[{N1} + {N2} + {N3}] == '--config' and {v}[{N1} + {N2} + {N3} + 1] is {S}configuration_path)",
    ]


def sets(v, hi):
    return [f"forall(lambda k: {v}[{B_SET} + 2 * k] == '--set' and {v}[{B_SET} + 2 * k + 1] is {S}set_properties[k], 0, {hi})"]


def plugs(v, hi):
    return [f"forall(lambda k: {v}[{B_PLUG} + 2 * k] == '--add-plugin' and {v}[{B_PLUG} + 2 * k + 1] is {S}plugin_paths_to_add[k], 0, {hi})"]


FRAME = [f"len({S}set_properties) == old(len({S}set_properties))", f"len({S}plugin_paths_to_add) == old(len({S}plugin_paths_to_add))",
         f"common_arguments is not {S}set_properties and common_arguments is not {S}plugin_paths_to_add",
         f"common_arguments is not {S}enable_rule_identifiers and common_arguments is not {S}disable_rule_identifiers"]
register(Contract(
    key=API + "__build_common_arguments", properties=["C16"],
    ensures=[
        # the argument list is the command-line spelling of the API object's state, option by option, ending with the sub-command
        f"len(result) == {B_EN} + {N_EN} + {N_DIS} + 1",
        "result[len(result) - 1] is action_to_invoke",
    ] + prefix("result") + sets("result", f"len({S}set_properties)") + plugs("result", f"len({S}plugin_paths_to_add)") + [
        f"implies(len({S}enable_rule_identifiers) > 0, result[{B_EN}] == '--enable-rules')",
        f"implies(len({S}disable_rule_identifiers) > 0, result[{B_EN} + {N_EN}] == '--disable-rules')",
    ],
    raises=[], modifies=[],
    loops={0: Loop(index="idx", invariant=[f"len(common_arguments) == {B_SET} + 2 * idx"] + prefix("common_arguments") + sets("common_arguments", "idx") + FRAME),
           1: Loop(index="idx", invariant=[f"len(common_arguments) == {B_PLUG} + 2 * idx"] + prefix("common_arguments")
                   + sets("common_arguments", f"len({S}set_properties)") + plugs("common_arguments", "idx") + FRAME)},
))


# ---------------------------------------------------------------------------------------------------------------
# fix_string: the string goes through the SAME `fix` entry point as a file -- it is spooled character for character (no newline
# translation) into a temporary file, `main([... "fix", <that file>])` runs, the file is read back character for character, and
# the temporary file is gone afterwards on every exit (C10: nothing is left behind).
MAINK = "pymarkdown/main.py::PyMarkdownLint.main"
TMP = Assumed("tempfile.NamedTemporaryFile[spool of fix_string]", params=["mode", "suffix", "encoding", "newline", "delete"], returns="TempFile",
              fresh_result=True, raises=[Raises("OSError")],
              requires=["newline == ''", "encoding == 'utf-8'", "mode == 'wt'", "delete == False"],
              ensures=["result.name not in g_files", "len(result.name) > 0"], effects=["g_files.add(result.name)", "g_spool = ''"],
              why="creates a new, uniquely named file; with newline='' what is written is stored character for character")
TWRITE = Assumed("TempFile.write[spool of fix_string]", params=["text"], pure=True, raises=[Raises("OSError")], effects=["g_spool = text"],
                 why="text-mode write with newline='': the file holds exactly the characters written")
OPEN_RAW = Assumed("builtins.open[read back of fix_string]", params=["file", "mode", "encoding", "newline"], returns="TextFile", fresh_result=True,
                   pure=True, raises=[Raises("OSError")], requires=["newline == ''", "encoding == 'utf-8'", "mode == 'rt'"],
                   effects=["g_readback = file"],
                   why="open(..., newline=''): read() returns the characters of the file without newline translation")
FREAD = Assumed("TextFile.read", params=[], returns="str", pure=True, raises=[Raises("OSError"), Raises("UnicodeError")], why="the whole text of the open file")
LINT = Assumed("pymarkdown/main.py::PyMarkdownLint[construct]", returns="PyMarkdownLint", fresh_result=True, pure=True, why="constructs the application object (no I/O)")
LMAIN = Assumed(MAINK + "[as called by the API]", params=["direct_args"], modifies=["*"], raises=[Raises("SystemExit", code="g_code", effects=["g_main.append((old(direct_args[len(direct_args) - 2]), old(direct_args[len(direct_args) - 1])))"])], ensures=["False"],
                ghost={"g_code": "int"}, xensures={"BaseException": ["forall_val(lambda x: (x in g_files) == old(x in g_files))"]},
                why="PyMarkdownLint.main never returns and leaves only by SystemExit (proved under C18); it removes every temporary file it creates "
                    "(C10/C15); ghost g_main records the last two arguments (sub-command, path) as they were at the call")
PRES = Assumed("_ApiPresentation[construct]", returns="_ApiPresentation", fresh_result=True, pure=True, why="collects the output of the run")
HFR = Assumed(API + "__handle_fix_results", params=["return_code", "this_presentation"], returns="PyMarkdownFixResult", fresh_result=True, pure=True,
              raises=[Raises("PyMarkdownApiException"), Raises("AssertionError")], why="PyMarkdownApi.__handle_fix_results (own contract at the end of this file): the result carries the list of announced files, other codes raise")
ISFILE = Assumed("os.path.isfile", params=["path"], returns="bool", pure=True, ensures=["result == (path in g_files)"],
                 why="for a path created by this call: it exists iff it has not been removed")
OSREMOVE = Assumed("os.remove[spool]", params=["path"], pure=True, effects=["g_files.discard(path)"],
                  why="removes the file; removing a file this very call created and closed is assumed to succeed")
VERIFY = Assumed(API + "__verify_string_argument_not_empty", params=["argument_name", "string_to_validate"], pure=True,
                 raises=[Raises("PyMarkdownApiArgumentException")], why="rejects an empty / all-whitespace string")
_R["$fields"].types.update({"TempFile.name": "str", "PyMarkdownFixResult.files_fixed": "List[str]"})
register(Contract(
    key=API + "fix_string", properties=["C16", "C10"],
    ghost={"g_files": "Set[str]", "g_spool": "str", "g_main": "List[Any]", "g_readback": "str", "g_code": "int"},
    calls={"tempfile.NamedTemporaryFile": TMP, "temp_file.write": TWRITE, "open": OPEN_RAW, "fixed_file.read": FREAD, "PyMarkdownLint": LINT,
           "scanner_instance.main": LMAIN, "_ApiPresentation": PRES, "self.__handle_fix_results": HFR, "os.path.isfile": ISFILE, "os.remove": OSREMOVE,
           "self.__verify_string_argument_not_empty": VERIFY, "self.__build_common_arguments": API + "__build_common_arguments",
           "open.__exit__": Assumed("file.__exit__", pure=True, why="close"), "tempfile.NamedTemporaryFile.__exit__": Assumed("tmp.__exit__", pure=True, why="close")},
    requires=["len(g_main) == 0"],
    ensures=[
        # exactly the given characters were spooled, `fix <spool file>` ran once through the common entry point, and the text handed
        # back is read from that same file
        "g_spool is string_to_scan", "len(g_main) == 1", "g_main[0][0] == 'fix'", "g_main[0][1] is g_readback", "len(g_readback) > 0",
        "forall_val(lambda x: (x in g_files) == old(x in g_files))",
    ],
    xensures={"BaseException": ["forall_val(lambda x: (x in g_files) == old(x in g_files))"]},
    raises=[Raises("PyMarkdownApiException"), Raises("PyMarkdownApiArgumentException"), Raises("OSError"), Raises("UnicodeError"), Raises("AssertionError")],
    modifies=["*", "g_files.$dict", "g_main.$list"],
))

# C10 / C16: what the API tells its caller about a fix run.  Whatever code the run ended with among the two "it worked" codes (0 and 3:
# under the `minimal` return-code scheme a run that fixed files ends with 0), the result carries exactly the list of files the run
# announced as fixed -- the same object the presentation collected the 'Fixed:' announcements in -- and any other code becomes an
# exception, never a result (seeded change C10-C returned an empty list for code 0).
_R["$fields"].types.update({"_ApiPresentation.pso": "List[str]", "_ApiPresentation.pse": "List[str]", "_ApiPresentation.files_fixed": "List[str]"})
register(Contract(
    key=API + "__handle_fix_results", properties=["C10", "C16", "C18"],
    requires=["len(this_presentation.pso) == 0", "implies(return_code != 0 and return_code != 3, len(this_presentation.pse) > 0)"],
    ensures=["return_code == 0 or return_code == 3", "result.files_fixed is this_presentation.files_fixed"],
    raises=[Raises("PyMarkdownApiException", when="return_code != 0 and return_code != 3")],
    modifies=[],
))
