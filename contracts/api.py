"""C16 -- the Python API drives the same entry point with the command-line spelling of its state."""
from pyvc.spec import Assumed, Contract, Loop, Raises, register

API = "pymarkdown/api.py::PyMarkdownApi."
from pyvc.spec import REGISTRY as _R
_R["$fields"].types.update({
    "PyMarkdownApi._PyMarkdownApi__enable_stack_trace": "bool", "PyMarkdownApi._PyMarkdownApi__enable_strict_configuration": "bool",
    "PyMarkdownApi._PyMarkdownApi__inherit_logging": "bool", "PyMarkdownApi._PyMarkdownApi__log_file_path": "Optional[str]",
    "PyMarkdownApi._PyMarkdownApi__log_level": "str", "PyMarkdownApi._PyMarkdownApi__configuration_path": "Optional[str]",
    "PyMarkdownApi._PyMarkdownApi__set_properties": "List[str]", "PyMarkdownApi._PyMarkdownApi__plugin_paths_to_add": "List[str]",
    "PyMarkdownApi._PyMarkdownApi__enable_rule_identifiers": "List[str]", "PyMarkdownApi._PyMarkdownApi__disable_rule_identifiers": "List[str]",
})

S = "self.__"
N1 = f"(1 if {S}enable_stack_trace else 0)"
N2 = f"(1 if {S}enable_strict_configuration else 0)"
N3 = f"(0 if {S}inherit_logging else ((2 if {S}log_file_path else 0) + 2))"
N4 = f"(2 if {S}configuration_path else 0)"
B_SET = f"({N1} + {N2} + {N3} + {N4})"
B_PLUG = f"({B_SET} + 2 * len({S}set_properties))"
B_EN = f"({B_PLUG} + 2 * len({S}plugin_paths_to_add))"
N_EN = f"(2 if len({S}enable_rule_identifiers) > 0 else 0)"
N_DIS = f"(2 if len({S}disable_rule_identifiers) > 0 else 0)"



def prefix(v):
    return [
        f"implies({S}enable_stack_trace, {v}[0] == '--stack-trace')",
        f"implies({S}enable_strict_configuration, {v}[{N1}] == '--strict-config')",
        f"implies(not {S}inherit_logging, {v}[{N1} + {N2} + {N3} - 2] == '--log-level' and {v}[{N1} + {N2} + {N3} - 1] is {S}log_level)",
        f"implies(not {S}inherit_logging and {S}log_file_path, {v}[{N1} + {N2}] == '--log-file' and {v}[{N1} + {N2} + 1] is {S}log_file_path)",
        f"implies({S}configuration_path, {v}[{N1} + {N2} + {N3}] == '--config' and {v}[{N1} + {N2} + {N3} + 1] is {S}configuration_path)",
    ]


def sets(v, hi):
    return [f"forall(lambda k: {v}[{B_SET} + 2 * k] == '--set' and {v}[{B_SET} + 2 * k + 1] is {S}set_properties[k], 0, {hi})"]


def plugs(v, hi):
    return [f"forall(lambda k: {v}[{B_PLUG} + 2 * k] == '--add-plugin' and {v}[{B_PLUG} + 2 * k + 1] is {S}plugin_paths_to_add[k], 0, {hi})"]


FRAME = [f"len({S}set_properties) == old(len({S}set_properties))", f"len({S}plugin_paths_to_add) == old(len({S}plugin_paths_to_add))",
         f"common_arguments is not {S}set_properties and common_arguments is not {S}plugin_paths_to_add",
         f"common_arguments is not {S}enable_rule_identifiers and common_arguments is not {S}disable_rule_identifiers"]
register(Contract(
    key=API + "__build_common_arguments", properties=["C16"],
    ensures=[
        # the argument list is the command-line spelling of the API object's state, option by option, ending with the sub-command
        f"len(result) == {B_EN} + {N_EN} + {N_DIS} + 1",
        "result[len(result) - 1] is action_to_invoke",
    ] + prefix("result") + sets("result", f"len({S}set_properties)") + plugs("result", f"len({S}plugin_paths_to_add)") + [
        f"implies(len({S}enable_rule_identifiers) > 0, result[{B_EN}] == '--enable-rules')",
        f"implies(len({S}disable_rule_identifiers) > 0, result[{B_EN} + {N_EN}] == '--disable-rules')",
    ],
    raises=[], modifies=[],
    loops={0: Loop(index="idx", invariant=[f"len(common_arguments) == {B_SET} + 2 * idx"] + prefix("common_arguments") + sets("common_arguments", "idx") + FRAME),
           1: Loop(index="idx", invariant=[f"len(common_arguments) == {B_PLUG} + 2 * idx"] + prefix("common_arguments")
                   + sets("common_arguments", f"len({S}set_properties)") + plugs("common_arguments", "idx") + FRAME)},
))
