"""C07 / C14 / C12(P3) / C13 -- the rule engine: PluginManager dispatchers and PluginScanContext."""
from pyvc.spec import Assumed, Contract, Loop, Raises, register

PM = "pymarkdown/plugin_manager/plugin_manager.py::PluginManager."
PSC = "pymarkdown/plugin_manager/plugin_scan_context.py::PluginScanContext."

TRACE = {"trace": "List[Any]"}
KEEP = "forall(lambda j: trace[j] == old(trace[j]), 0, old(len(trace)))"


def appended(lst, event):
    """trace == old(trace) ++ [event(j) for j < len(lst)]"""
    return [f"len(trace) == old(len(trace)) + len({lst})",
            f"forall(lambda j: trace[old(len(trace)) + j] == {event}, 0, len({lst}))", KEEP]


SNF_LIST = "self.__enabled_plugins_for_starting_new_file"
register(Contract(
    key=PM + "starting_new_file", properties=["C07", "C13", "C14", "C15", "C16", "C11"],
    ghost=TRACE,
    ensures=["len(self.__document_pragmas) == 0", "len(self.__document_pragma_ranges) == 0",
             "result.scan_file == file_being_started", "result.line_number == 0", "result.in_fix_mode == fix_mode",
             "len(result._PluginScanContext__reported) == 0", "result.last_line_fixed is None",
             "result.current_fix_line is None", "result.owning_manager is self",
             "is_fresh(result)", "is_fresh(result._PluginScanContext__reported)",
             "result._PluginScanContext__fix_token_map is fix_token_map",
             "result._PluginScanContext__replace_token_list is replace_tokens_list"]
    + [f"implies(not constraint_id_list, {e})" for e in appended(SNF_LIST, f"('start', {SNF_LIST}[j].plugin_instance)")],
    raises=[Raises("BadPluginError")],
    modifies=["__document_pragmas", "__document_pragma_ranges", "$rule_state", "trace.$list"],
    loops={0: Loop(index="idx", invariant=[
        f"implies(not constraint_id_list, len(trace) == old(len(trace)) + idx)",
        f"implies(not constraint_id_list, forall(lambda j: trace[old(len(trace)) + j] == ('start', {SNF_LIST}[j].plugin_instance), 0, idx))",
        KEEP, "len(trace) >= old(len(trace))", f"len({SNF_LIST}) == old(len({SNF_LIST}))",
        f"forall(lambda j: {SNF_LIST}[j] == old({SNF_LIST}[j]), 0, len({SNF_LIST}))",
    ])},
))


FILE_WRITE = Assumed("TextIOWrapper.write", params=["text"], raises=[Raises("OSError")], pure=True,
                    effects=["g_written.append(text)"],
                    why="writing to the temporary output file of the fix line pass; may fail with OSError")


def dispatcher(name, lst, event, extra_ensures=(), extra_inv=(), extra_mods=(), extra_ghost=None):
    L = f"self.{lst}"
    scan = "(context_map is None and not old(context).in_fix_mode)"
    sep = (f"context._PluginScanContext__reported is not {L} and context._PluginScanContext__fix_token_map is None "
           f"and context._PluginScanContext__replace_token_list is None")
    ev = event.replace("L[j]", f"{L}[j]")
    register(Contract(
        key=PM + name, properties=["C07", "C12", "C14", "C15", "C09", "C08", "C10"],
        ghost=dict(TRACE, **(extra_ghost or {})),
        requires=[f"implies(context_map is None and not context.in_fix_mode, context.current_fix_line is None and {sep})"],
        ensures=[f"implies({scan}, {e})" for e in appended(L, ev)]
        + [f"implies({scan}, context.current_fix_line is None)"] + list(extra_ensures),
        # C07: whatever a rule callback raises, only BadPluginError leaves the dispatcher
        raises=[Raises("BadPluginError")] + ([Raises("OSError", when="context_map is not None or context.in_fix_mode"),
                                             Raises("AssertionError", when="context_map is not None or context.in_fix_mode")] if name != "next_token" else []),
        modifies=["$rule_state", "context._PluginScanContext__reported.$list", "trace.$list"] + list(extra_mods),
        # fix mode: the contexts of context_map, their fix maps / records / current line, the output file
        cmodifies=[("context_map is not None or context.in_fix_mode",
                    ["_PluginScanContext__current_fix_line", "_PluginScanContext__last_line_fixed", "line_number",
                     "$llen", "$litems", "$ddom", "$dval", "$dlen"])],
        calls={"context.file_output.write": FILE_WRITE},
        loops={0: Loop(index="idx", invariant=[
            f"implies({scan}, context is old(context))",
            f"implies({scan}, len(trace) == old(len(trace)) + idx)",
            f"implies({scan}, forall(lambda j: trace[old(len(trace)) + j] == {ev}, 0, idx))",
            f"implies({scan}, {KEEP})",
            f"implies({scan}, context.current_fix_line is None and {sep})",
            f"implies({scan}, len({L}) == old(len({L})))", f"implies({scan}, forall(lambda j: {L}[j] == old({L}[j]), 0, len({L})))",
            f"implies({scan}, same_except('$list', old(context)._PluginScanContext__reported) and same_except('$dict') "
            f"and same_except('_PluginScanContext__current_fix_line') and same_except('_PluginScanContext__last_line_fixed') "
            f"and same_except('line_number', old(context)))",
        ] + list(extra_inv))},
    ))


dispatcher("next_token", "__enabled_plugins_for_next_token", "('tok', L[j].plugin_instance, context, token)")
CH_POST = ['implies(len(trace) > old(len(trace)), trace[old(len(trace))][4] is line)', 'len(g_cfl) - old(len(g_cfl)) == len(trace) - old(len(trace))', 'forall(lambda t: trace[t][4] is (g_cfl[t - old(len(trace)) + old(len(g_cfl)) - 1] if g_cfl[t - old(len(trace)) + old(len(g_cfl)) - 1] is not None else trace[t - 1][4]), old(len(trace)) + 1, len(trace))']
CH_INV = ['len(g_cfl) - old(len(g_cfl)) == len(trace) - old(len(trace))', 'len(trace) >= old(len(trace))', 'implies(len(trace) == old(len(trace)), line is old(line))', 'implies(len(trace) > old(len(trace)), trace[old(len(trace))][4] is old(line))', 'implies(len(trace) > old(len(trace)), line is (g_cfl[len(g_cfl) - 1] if g_cfl[len(g_cfl) - 1] is not None else trace[len(trace) - 1][4]))', 'forall(lambda t: trace[t][4] is (g_cfl[t - old(len(trace)) + old(len(g_cfl)) - 1] if g_cfl[t - old(len(trace)) + old(len(g_cfl)) - 1] is not None else trace[t - 1][4]), old(len(trace)) + 1, len(trace))', 'forall(lambda t: trace[t] == old(trace[t]), 0, old(len(trace)))']
dispatcher("next_line", "__enabled_plugins_for_next_line", "('line', L[j].plugin_instance, context, line_number, line)",
           extra_ghost={"g_cfl": "List[Optional[str]]", "g_written": "List[Any]"},
           extra_ensures=[
               # C08 / C10 (D21): in fix mode every line handed to next_line is written to the output of the pass exactly once --
               # whichever context the LAST rule of the list was given (a rule of a higher fix level gets the reporting context)
               "implies(old(context.in_fix_mode), len(g_written) == old(len(g_written)) + 1)",
               "implies(not old(context.in_fix_mode) and context_map is None, len(g_written) == old(len(g_written)))",
               # C09 (all modes, with or without context_map): a rule receives the line as fixed by the rules before it: the first
               # rule gets the file's line, each later one gets the previous rule's fixed line if it set one, else what that rule got
               ] + CH_POST + ["implies(context_map is None and not old(context).in_fix_mode, context.line_number == line_number)"],
           extra_inv=CH_INV + ["implies(context_map is None, plugin_context is context)", "len(g_written) == old(len(g_written))",
                      "context.in_fix_mode == old(context.in_fix_mode)",
                      "implies(context_map is None and not old(context).in_fix_mode, line is old(line))",
                      "implies(context_map is None and not old(context).in_fix_mode, context.line_number == line_number)"],
           extra_mods=["context.line_number", "g_written.$list"])
dispatcher("completed_file", "__enabled_plugins_for_completed_file", "('done', L[j].plugin_instance, context, line_number)",
           extra_ensures=["implies(context_map is None and not old(context).in_fix_mode, context.line_number == line_number)"],
           extra_inv=["implies(context_map is None, plugin_context is context)",
                      "implies(context_map is None and not old(context).in_fix_mode, context.line_number == line_number)"],
           extra_mods=["context.line_number"])

register(Contract(
    key=PSC + "report_on_triggered_rules", properties=["C07", "C12"],
    raises=[],
    ensures=["len(self.__reported) == 0",
             "self.owning_manager.number_of_scan_failures >= old(self.owning_manager.number_of_scan_failures)"],
    modifies=["self.__reported.$list", "number_of_scan_failures", "$presentation_state"],
    loops={0: Loop(invariant=["self.owning_manager.number_of_scan_failures >= old(self.owning_manager.number_of_scan_failures)",
                              "self.owning_manager is old(self.owning_manager)"])},
))

# ---------------------------------------------------------------------------------------------------------
# C07: order, once-each, nothing lost
PSF = "pymarkdown/plugin_manager/plugin_scan_failure.py::PluginScanFailure."
LT = ("(a.line_number < b.line_number or (a.line_number == b.line_number and (a.column_number < b.column_number or "
      "(a.column_number == b.column_number and a.rule_id < b.rule_id))))")


def lt(a, b):
    return LT.replace("a.", a + ".").replace("b.", b + ".")


register(Contract(
    key=PSF + "__lt__", properties=["C07"],
    # the documented order: by line, then column, then rule id
    ensures=["result == " + lt("self", "other")],
    pure=True,
))

SORTED_FAILURES = Assumed(
    "sorted[PluginScanFailure]", params=["xs"], returns="List[PluginScanFailure]", fresh_result=True,
    ensures=["len(result) == len(xs)",
             # g_inv: where each element of xs went (a bijection: in range, injective, and lengths are equal)
             "len(g_inv) == len(xs)",
             "forall(lambda k: 0 <= g_inv[k] and g_inv[k] < len(xs) and result[g_inv[k]] is xs[k], 0, len(xs))",
             "forall(lambda a, b: implies(a < b, g_inv[a] != g_inv[b]), 0, len(xs))",
             "forall(lambda j, k: implies(j < k, not " + lt("result[k]", "result[j]") + "), 0, len(xs))"],
    effects=["g_sorted = result"], modifies=["g_inv.$list"], ghost={"g_inv": "List[int]"},
    why="sorted(xs): a permutation of xs (same length; ghost g_inv is the position each element moved to), and no later element is __lt__ an earlier "
        "one; __lt__ of PluginScanFailure is proved to be the (line, column, rule id) order (contract of PluginScanFailure.__lt__)")

_rot = REGISTRY_KEY = PSC + "report_on_triggered_rules"
from pyvc.spec import REGISTRY as _REG
del _REG[PSC + "report_on_triggered_rules"]
REP = "self.__reported"
register(Contract(
    key=PSC + "report_on_triggered_rules", properties=["C07", "C12", "C15"],
    ghost={"g_logged": "List[PluginScanFailure]", "g_sorted": "List[PluginScanFailure]", "g_inv": "List[int]"},
    calls={"sorted": SORTED_FAILURES,
           "self.owning_manager.log_scan_failure": (PM + "log_scan_failure", ["g_logged.append(scan_failure)"])},
    raises=[],
    ensures=[f"len({REP}) == 0",      # nothing is reported twice: the list is cleared
             "self.owning_manager.number_of_scan_failures >= old(self.owning_manager.number_of_scan_failures)",
             # every collected failure is handed to the manager exactly once, in (line, column, rule id) order
             f"len(g_logged) == old(len(g_logged)) + old(len({REP}))",
             f"forall(lambda j: 0 <= g_inv[j] and g_inv[j] < old(len({REP})) and g_logged[old(len(g_logged)) + g_inv[j]] is old({REP}[j]), 0, old(len({REP})))",
             f"forall(lambda a, b: implies(a < b, g_inv[a] != g_inv[b]), 0, old(len({REP})))",
             "forall(lambda j, k: implies(j < k, not " + lt("g_logged[k]", "g_logged[j]") + f"), old(len(g_logged)), old(len(g_logged)) + old(len({REP})))",
             "forall(lambda j: g_logged[j] is old(g_logged[j]), 0, old(len(g_logged)))"],
    modifies=[f"{REP}.$list", "number_of_scan_failures", "$presentation_state", "g_logged.$list", "g_sorted", "g_inv.$list"],
    loops={0: Loop(index="idx", invariant=[
        "self.owning_manager.number_of_scan_failures >= old(self.owning_manager.number_of_scan_failures)",
        "self.owning_manager is old(self.owning_manager)", f"{REP} is old({REP})",
        "reported_and_sorted is g_sorted", "len(g_logged) == old(len(g_logged)) + idx",
        "forall(lambda m: g_logged[m] is g_sorted[m - old(len(g_logged))], old(len(g_logged)), old(len(g_logged)) + idx)",
        "forall(lambda j: g_logged[j] is old(g_logged[j]), 0, old(len(g_logged)))",
        f"len(g_sorted) == old(len({REP}))",
        f"forall(lambda j: 0 <= g_inv[j] and g_inv[j] < old(len({REP})) and g_sorted[g_inv[j]] is old({REP}[j]), 0, old(len({REP})))",
        f"forall(lambda a, b: implies(a < b, g_inv[a] != g_inv[b]), 0, old(len({REP})))",
        "forall(lambda j, k: implies(j < k, not " + lt("g_sorted[k]", "g_sorted[j]") + f"), 0, old(len({REP})))",
        "same_except('line_number') and same_except('column_number') and same_except('rule_id')",
    ])},
))

RULE = "scan_failure.rule_id.lower()"
LINE = "scan_failure.line_number"
SUPPRESSED = (f"((len(self.__document_pragmas) > 0 and {LINE} in self.__document_pragmas and {RULE} in self.__document_pragmas[{LINE}]) or "
              f"exists(lambda q: self.__document_pragma_ranges[q][0] <= {LINE} and {LINE} <= self.__document_pragma_ranges[q][1] "
              f"and {RULE} in self.__document_pragma_ranges[q][2], 0, len(self.__document_pragma_ranges)))")
register(Contract(
    key=PM + "log_scan_failure", properties=["C07", "C11"],
    ghost={"g_printed": "List[Any]"},
    # C11: a failure is printed  <=>  no pragma of the document covers (its line, its rule id)
    ensures=[f"len(g_printed) == old(len(g_printed)) + (0 if old({SUPPRESSED}) else 1)",
             f"self.number_of_scan_failures == old(self.number_of_scan_failures) + (0 if old({SUPPRESSED}) else 1)"],
    raises=[],
    modifies=["self.number_of_scan_failures", "$presentation_state", "g_printed.$list"],
    types={"self.__document_pragma_ranges": "List[Tuple[int, int, Set[str]]]", "self.__document_pragmas": "Dict[int, Set[str]]"},
    loops={0: Loop(index="idx", invariant=[
        f"forall(lambda q: not (self.__document_pragma_ranges[q][0] <= {LINE} and {LINE} <= self.__document_pragma_ranges[q][1] "
        f"and {RULE} in self.__document_pragma_ranges[q][2]), 0, idx)",
        "rule_id is " + RULE, "len(g_printed) == old(len(g_printed))", "self.number_of_scan_failures == old(self.number_of_scan_failures)",
    ])},
))

# C07: a reported failure is recorded exactly once with exactly the reported position and rule; in fix mode nothing is recorded
# (a rule that supports fixing must not report there at all)
REP = "self.__reported"
register(Contract(
    key=PSC + "add_triggered_rule", properties=["C07", "C05"],
    ensures=[
        f"implies(self.in_fix_mode, len({REP}) == old(len({REP})))",
        f"implies(not self.in_fix_mode, len({REP}) == old(len({REP})) + 1 and is_fresh({REP}[len({REP}) - 1]))",
        f"implies(not self.in_fix_mode, {REP}[len({REP}) - 1].scan_file is scan_file and {REP}[len({REP}) - 1].line_number == line_number and "
        f"{REP}[len({REP}) - 1].column_number == column_number and {REP}[len({REP}) - 1].rule_id is rule_id and "
        f"{REP}[len({REP}) - 1].extra_error_information is extra_error_information)",
        f"forall(lambda k: {REP}[k] is old({REP}[k]), 0, old(len({REP})))",
    ],
    raises=[Raises("BadPluginError", when="self.in_fix_mode and does_support_fix")],
    modifies=[f"{REP}.$list"],
))
