"""C07 / C14 / C12(P3) / C13 -- the rule engine: PluginManager dispatchers and PluginScanContext."""
from pyvc.spec import Assumed, Contract, Loop, Raises, register

PM = "pymarkdown/plugin_manager/plugin_manager.py::PluginManager."
PSC = "pymarkdown/plugin_manager/plugin_scan_context.py::PluginScanContext."

TRACE = {"trace": "List[Any]"}
KEEP = "forall(lambda j: trace[j] == old(trace[j]), 0, old(len(trace)))"


def appended(lst, event):
    """trace == old(trace) ++ [event(j) for j < len(lst)]"""
    return [f"len(trace) == old(len(trace)) + len({lst})",
            f"forall(lambda j: trace[old(len(trace)) + j] == {event}, 0, len({lst}))", KEEP]


SNF_LIST = "self.__enabled_plugins_for_starting_new_file"
register(Contract(
    key=PM + "starting_new_file", properties=["C07", "C13", "C14", "C15"],
    ghost=TRACE,
    ensures=["len(self.__document_pragmas) == 0", "len(self.__document_pragma_ranges) == 0",
             "result.scan_file == file_being_started", "result.line_number == 0", "result.in_fix_mode == fix_mode",
             "len(result._PluginScanContext__reported) == 0", "result.last_line_fixed is None",
             "result.current_fix_line is None", "result.owning_manager is self",
             "is_fresh(result)", "is_fresh(result._PluginScanContext__reported)",
             "result._PluginScanContext__fix_token_map is fix_token_map",
             "result._PluginScanContext__replace_token_list is replace_tokens_list"]
    + [f"implies(not constraint_id_list, {e})" for e in appended(SNF_LIST, f"('start', {SNF_LIST}[j].plugin_instance)")],
    raises=[Raises("BadPluginError")],
    modifies=["__document_pragmas", "__document_pragma_ranges", "$rule_state", "trace.$list"],
    loops={0: Loop(index="idx", invariant=[
        f"implies(not constraint_id_list, len(trace) == old(len(trace)) + idx)",
        f"implies(not constraint_id_list, forall(lambda j: trace[old(len(trace)) + j] == ('start', {SNF_LIST}[j].plugin_instance), 0, idx))",
        KEEP, "len(trace) >= old(len(trace))", f"len({SNF_LIST}) == old(len({SNF_LIST}))",
        f"forall(lambda j: {SNF_LIST}[j] == old({SNF_LIST}[j]), 0, len({SNF_LIST}))",
    ])},
))


FILE_WRITE = Assumed("TextIOWrapper.write", params=["text"], raises=[Raises("OSError")], pure=True,
                    effects=["g_written.append(text)"],
                    why="writing to the temporary output file of the fix line pass; may fail with OSError")


def dispatcher(name, lst, event, extra_ensures=(), extra_inv=(), extra_mods=()):
    L = f"self.{lst}"
    scan = "(context_map is None and not old(context).in_fix_mode)"
    sep = (f"context._PluginScanContext__reported is not {L} and context._PluginScanContext__fix_token_map is None "
           f"and context._PluginScanContext__replace_token_list is None")
    ev = event.replace("L[j]", f"{L}[j]")
    register(Contract(
        key=PM + name, properties=["C07", "C12", "C14", "C15"],
        ghost=TRACE,
        requires=[f"implies(context_map is None and not context.in_fix_mode, context.current_fix_line is None and {sep})"],
        ensures=[f"implies({scan}, {e})" for e in appended(L, ev)]
        + [f"implies({scan}, context.current_fix_line is None)"] + list(extra_ensures),
        # C07: whatever a rule callback raises, only BadPluginError leaves the dispatcher
        raises=[Raises("BadPluginError")] + ([Raises("OSError", when="context_map is not None or context.in_fix_mode"),
                                             Raises("AssertionError", when="context_map is not None or context.in_fix_mode")] if name != "next_token" else []),
        modifies=["$rule_state", "context._PluginScanContext__reported.$list", "trace.$list"] + list(extra_mods),
        # fix mode: the contexts of context_map, their fix maps / records / current line, the output file
        cmodifies=[("context_map is not None or context.in_fix_mode",
                    ["_PluginScanContext__current_fix_line", "_PluginScanContext__last_line_fixed", "line_number",
                     "$llen", "$litems", "$ddom", "$dval", "$dlen"])],
        calls={"context.file_output.write": FILE_WRITE},
        loops={0: Loop(index="idx", invariant=[
            f"implies({scan}, context is old(context))",
            f"implies({scan}, len(trace) == old(len(trace)) + idx)",
            f"implies({scan}, forall(lambda j: trace[old(len(trace)) + j] == {ev}, 0, idx))",
            f"implies({scan}, {KEEP})",
            f"implies({scan}, context.current_fix_line is None and {sep})",
            f"implies({scan}, len({L}) == old(len({L})))", f"implies({scan}, forall(lambda j: {L}[j] == old({L}[j]), 0, len({L})))",
            f"implies({scan}, same_except('$list', old(context)._PluginScanContext__reported) and same_except('$dict') "
            f"and same_except('_PluginScanContext__current_fix_line') and same_except('_PluginScanContext__last_line_fixed') "
            f"and same_except('line_number', old(context)))",
        ] + list(extra_inv))},
    ))


dispatcher("next_token", "__enabled_plugins_for_next_token", "('tok', L[j].plugin_instance, context, token)")
dispatcher("next_line", "__enabled_plugins_for_next_line", "('line', L[j].plugin_instance, context, line_number, line)",
           extra_ensures=["implies(context_map is None and not old(context).in_fix_mode, context.line_number == line_number)"],
           extra_inv=["implies(context_map is None and not old(context).in_fix_mode, line is old(line))",
                      "implies(context_map is None and not old(context).in_fix_mode, context.line_number == line_number)"],
           extra_mods=["context.line_number"])
dispatcher("completed_file", "__enabled_plugins_for_completed_file", "('done', L[j].plugin_instance, context, line_number)",
           extra_ensures=["implies(context_map is None and not old(context).in_fix_mode, context.line_number == line_number)"],
           extra_inv=["implies(context_map is None and not old(context).in_fix_mode, context.line_number == line_number)"],
           extra_mods=["context.line_number"])

register(Contract(
    key=PSC + "report_on_triggered_rules", properties=["C07", "C12"],
    raises=[],
    ensures=["len(self.__reported) == 0",
             "self.owning_manager.number_of_scan_failures >= old(self.owning_manager.number_of_scan_failures)"],
    modifies=["self.__reported.$list", "number_of_scan_failures", "$presentation_state"],
    loops={0: Loop(invariant=["self.owning_manager.number_of_scan_failures >= old(self.owning_manager.number_of_scan_failures)",
                              "self.owning_manager is old(self.owning_manager)"])},
))
