"""C19 -- file discovery selects exactly the documented set, once each, in sorted order."""
import z3

from pyvc.spec import Assumed, Contract, Loop, Raises, register, spec_fn
from pyvc.sym import V, fresh, vbool

AFS = "pymarkdown/application_file_scanner.py::ApplicationFileScanner."
P = ["C19"]

# abstract, immutable file system: uninterpreted predicates of the path string
_fs_isfile = z3.Function("fs_isfile", z3.IntSort(), z3.BoolSort())
_fs_isdir = z3.Function("fs_isdir", z3.IntSort(), z3.BoolSort())
_fs_exists = z3.Function("fs_exists", z3.IntSort(), z3.BoolSort())


@spec_fn("fs_isfile")
def fs_isfile(ex, st, args):
    return vbool(_fs_isfile(V.s(args[0].z)))


@spec_fn("fs_isdir")
def fs_isdir(ex, st, args):
    return vbool(_fs_isdir(V.s(args[0].z)))


@spec_fn("fs_exists")
def fs_exists(ex, st, args):
    return vbool(_fs_exists(V.s(args[0].z)))


FS_WHY = "the file system is an uninterpreted, immutable structure during file discovery (os.path.* are pure functions of the path)"
register(Assumed("os.path.isfile", params=["path"], returns="bool", pure=True, ensures=["result == fs_isfile(path)"], why=FS_WHY))
register(Assumed("os.path.isdir", params=["path"], returns="bool", pure=True, ensures=["result == fs_isdir(path)"], why=FS_WHY))
# os.path.exists is already registered (ghost g_files); file discovery uses the per-call-site contract below
EXISTS = Assumed("os.path.exists[discovery]", params=["path"], returns="bool", pure=True, ensures=["result == fs_exists(path)"], why=FS_WHY)
HANDLE_ERROR = Assumed("handle_error(message)", params=["message"], pure=True, effects=["g_errors = g_errors + 1"],
                       why="output callback (prints the error line); ghost g_errors counts the reported errors")
HANDLE_OUTPUT = Assumed("handle_output(message)", params=["message"], pure=True, effects=["g_outputs = g_outputs + 1"], why="output callback")

ELIGIBLE = "(fs_isfile(path_to_test) and exists(lambda e: path_to_test.endswith(eligible_extensions[e]), 0, len(eligible_extensions)))"
register(Contract(
    key=AFS + "__is_file_eligible_to_scan", properties=P,
    # eligible  <=>  a plain file whose name ends with one of the extensions
    # `definitions` holds the DEFINITION of the predicate `eligible` (a conservative extension, not an assumption
    # about the code): eligible(p, exts) := isfile(p) and some extension is a suffix of p
    definitions=[f"eligible(path_to_test, eligible_extensions) == {ELIGIBLE}"],
    ensures=[f"result == {ELIGIBLE}", "result == eligible(path_to_test, eligible_extensions)"],
    pure=True,
))


_elig = z3.Function("eligible", z3.IntSort(), z3.ArraySort(z3.IntSort(), V), z3.IntSort(), z3.BoolSort())


@spec_fn("eligible")
def eligible(ex, st, args):
    """eligible(path, extensions): an opaque predicate, DEFINED (conservatively) as the expression proved for
    __is_file_eligible_to_scan: isfile(path) and some extension is a suffix of path.  Used opaquely everywhere else."""
    path, exts = args
    r = V.r(exts.z)
    return vbool(_elig(V.s(path.z), st.hread("$litems", r), st.hread("$llen", r)))


register(Contract(
    key=AFS + "__process_next_path", properties=P,
    ghost={"g_errors": "int"},
    calls={"handle_error": HANDLE_ERROR, "os.path.exists": EXISTS,
           "ApplicationFileScanner.__process_next_path_directory": AFS + "__process_next_path_directory"},
    types={"os.altsep": "Optional[str]", "os.sep": "str"},
    ensures=[
        # False  <=>  the path does not exist, or it is a file that is not eligible; exactly then one error is reported
        "result == (fs_exists(next_path) and (fs_isdir(next_path) or eligible(next_path, eligible_extensions)))",
        "g_errors == old(g_errors) + (0 if result else 1)",
        # nothing is ever removed from the set; an erroring path adds nothing
        "forall_val(lambda x: implies(old(x in files_to_parse), x in files_to_parse))",
        "implies(not result, forall_val(lambda x: (x in files_to_parse) == old(x in files_to_parse)))",
        # everything that is added is an eligible file
        # (POSIX: os.altsep is None; with an alternative separator the stored path is the normalised spelling - not modelled)
        "implies(os.altsep is None, forall_val(lambda x: implies(x in files_to_parse and not old(x in files_to_parse), eligible(x, eligible_extensions))))",
    ],
    modifies=["files_to_parse.$dict", "g_errors"],
))

register(Contract(
    key=AFS + "__process_next_path_directory", properties=P,
    calls={"os.walk": Assumed("os.walk", params=["top"], returns="List[Tuple[str, List[str], List[str]]]", fresh_result=True, pure=True,
                              why="directory traversal: yields (root, dirs, files) triples; the triples are data of the abstract file system")},
    types={"os.altsep": "Optional[str]", "os.sep": "str"},
    ensures=["forall_val(lambda x: implies(old(x in files_to_parse), x in files_to_parse))",
             "forall_val(lambda x: implies(x in files_to_parse and not old(x in files_to_parse), eligible(x, eligible_extensions)))"],
    modifies=["files_to_parse.$dict"],
    loops={0: Loop(invariant=["forall_val(lambda x: implies(old(x in files_to_parse), x in files_to_parse))",
                              "forall_val(lambda x: implies(x in files_to_parse and not old(x in files_to_parse), eligible(x, eligible_extensions)))"]),
           1: Loop(invariant=["forall_val(lambda x: implies(old(x in files_to_parse), x in files_to_parse))",
                              "forall_val(lambda x: implies(x in files_to_parse and not old(x in files_to_parse), eligible(x, eligible_extensions)))"])},
))

IS_GLOB = "('*' in {p} or '?' in {p})"
OKPATH = "(fs_exists({p}) and (fs_isdir({p}) or eligible({p}, g_exts)))"
register(Assumed("glob.glob", params=["pattern"], returns="List[str]", fresh_result=True, pure=True, effects=["g_globbed.add(pattern)"],
                 why="glob expansion against the abstract file system; ghost g_globbed records which arguments were expanded"))
register(Assumed("glob.has_magic", params=["s"], returns="bool", pure=True,
                 ensures=["result == ('*' in s or '?' in s or '[' in s)"],
                 why="glob.has_magic: true iff the string contains one of * ? [  (CPython glob.magic_check)"))

register(Contract(
    key=AFS + "__handle_main_list_files", properties=P + ["C10"],
    ghost={"g_errors": "int", "g_outputs": "int"},
    calls={"handle_error": HANDLE_ERROR, "handle_output": HANDLE_OUTPUT},
    ensures=["result == only_list_files",
             # the list is printed iff list mode is on and something was found; 'No matching files found.' iff list mode and nothing found
             "g_outputs == old(g_outputs) + (1 if (only_list_files and len(files_to_scan) > 0) else 0)",
             "g_errors == old(g_errors) + (1 if (only_list_files and len(files_to_scan) == 0) else 0)"],
    modifies=["g_errors", "g_outputs"],
))

_abs = z3.Function("fs_abspath", z3.IntSort(), z3.IntSort())


@spec_fn("abs_path")
def abs_path(ex, st, args):
    """the absolute path a path string denotes (os.path.abspath): a function of the string and the fixed working directory"""
    from pyvc.sym import Val, TH
    return Val(V.S(_abs(V.s(args[0].z))), th=TH("str"))


ABSPATH = Assumed("os.path.abspath", params=["path"], returns="str", pure=True, ensures=["result == abs_path(path)"],
                  why="os.path.abspath: normalised absolute form of the path (the working directory does not change during discovery)")

register(Contract(
    key=AFS + "determine_files_to_scan", properties=P,
    ghost={"g_errors": "int", "g_outputs": "int", "g_globbed": "Set[str]"},
    requires=["is_empty(g_globbed)"],
    calls={"handle_error": HANDLE_ERROR, "glob.glob": "glob.glob", "os.path.abspath": ABSPATH,
           "ApplicationFileScanner.__process_next_path": AFS + "__process_next_path",
           "ApplicationFileScanner.__handle_main_list_files": AFS + "__handle_main_list_files"},
    ensures=[
        # each file once -- however it is spelled (a.md, ./a.md, an absolute path) --, in sorted order
        "forall(lambda a, b: implies(a < b, result[0][a] != result[0][b] and not (result[0][b] < result[0][a])), 0, len(result[0]))",
        "forall(lambda a, b: implies(a < b, abs_path(result[0][a]) != abs_path(result[0][b])), 0, len(result[0]))",
        # only arguments that contain * or ? are glob-expanded (the user guide's rule); a name with other characters is a literal path
        "forall_val(lambda x: implies(x in g_globbed, " + IS_GLOB.format(p="x") + "))",
        # an argument in error is reported, and is the only way to get the error flag
        "implies(result[1], g_errors > old(g_errors))",
        "result[2] == only_list_files",
    ],
    modifies=["g_errors", "g_outputs", "g_globbed.$dict"],
    loops={0: Loop(index="idx", invariant=[
        "forall_val(lambda x: implies(x in g_globbed, " + IS_GLOB.format(p="x") + "))",
        "implies(did_error_scanning_files, g_errors > old(g_errors))", "g_errors >= old(g_errors)",
        "not did_error_scanning_files",   # an error leaves the loop at once (break): nothing after the bad argument is looked at
    ]), 1: Loop(invariant=["g_errors >= old(g_errors)"]),
        2: Loop(index="idx", seq_name="sf", invariant=[
            "forall(lambda a, b: implies(a < b, sorted_files_to_parse[a] != sorted_files_to_parse[b] and "
            "not (sorted_files_to_parse[b] < sorted_files_to_parse[a]) and abs_path(sorted_files_to_parse[a]) != abs_path(sorted_files_to_parse[b])), "
            "0, len(sorted_files_to_parse))",
            "forall(lambda a: abs_path(sorted_files_to_parse[a]) in absolute_paths_seen, 0, len(sorted_files_to_parse))",
            # everything kept so far sorts strictly before everything still to come
            "forall(lambda a: forall(lambda j: sorted_files_to_parse[a] != sf[j] and not (sf[j] < sorted_files_to_parse[a]), idx, len(sf)), 0, len(sorted_files_to_parse))",
            "g_errors >= old(g_errors)", "implies(did_error_scanning_files, g_errors > old(g_errors))",
            "forall_val(lambda x: implies(x in g_globbed, " + IS_GLOB.format(p="x") + "))",
            "sorted_files_to_parse is not sf",
        ])},
))
