"""C11 -- pragmas suppress exactly what they name."""
from pyvc.spec import Assumed, Contract, Loop, Raises, register

PX = "pymarkdown/extensions/pragma_token.py::PragmaExtension."
PM = "pymarkdown/plugin_manager/plugin_manager.py::PluginManager."
P = ["C11", "C12"]

LOG = Assumed("log_pragma_failure(scan_file, line, message)", params=["scan_file", "line_number", "message"], pure=True,
              effects=["g_nerr = g_nerr + 1", "g_errline = line_number"],
              why="PluginManager.log_pragma_failure (prints `file:line:1: INLINE: message`, counts); ghost g_nerr counts, g_errline is the last reported line")

TOK = "command_data[{start}:].split(',')"
NORM = "{toks}[{j}].strip(' ').lower()"


def clauses(start):
    toks = TOK.format(start=start)
    norm = lambda j: NORM.format(toks=toks, j=j)
    valid = lambda j: f"(len({norm(j)}) > 0 and {norm(j)} in all_ids)"
    pid = lambda j: f"all_ids[{norm(j)}].plugin_id"
    n = f"len({toks})"
    return toks, norm, valid, pid, n


# Sets of strings built in a loop: "x in S  <=>  exists j ..." needs a witness.  The witness is kept in ghost state by
# instrumenting the (builtin) set.add call: g_pos[x] = position of x in the ghost list g_added, g_src[t] = the index of the
# list entry that caused g_added[t].  All clauses are then universally quantified only.
SET_ADD = Assumed("set.add (instrumented)", params=["x"], pure=False,
                  ensures=["forall_val(lambda y: (y in self) == (old(y in self) or y == x))", "len(self) >= 1", "len(self) >= old(len(self))"],
                  modifies=["self.$dict"],
                  effects=["g_pos[x] = len(g_added)", "g_added.append(x)", "g_src.append(idx)"],
                  why="set.add with its exact membership semantics; the ghost lists record which loop iteration added which element")
GH = {"g_nerr": "int", "g_errline": "int", "g_pos": "Dict[str, int]", "g_added": "List[str]", "g_src": "List[int]"}


def id_list_contract(key, start, target_kind):
    toks, norm, valid0, pid0, n = clauses(start)
    global LETS
    LETS = {"tok_valid": ("j", "bool", valid0("j")), "tok_pid": ("j", "str", pid0("j")), "tok": ("j", "str", f"{toks}[j]")}
    valid = lambda j: f"tok_valid({j})"
    pid = lambda j: f"tok_pid({j})"
    wit = "g_src[g_pos[x]]"
    sound = (f"forall_val(lambda x: implies(x in {{S}}, x in g_pos and 0 <= g_pos[x] and g_pos[x] < len(g_added) and g_added[g_pos[x]] == x "
             f"and 0 <= {wit} and {wit} < {{hi}} and {valid(wit)} and x == {pid(wit)}))")
    complete = f"forall(lambda j: implies({valid('j')}, {pid('j')} in {{S}}), 0, {{hi}})"
    inv = [
        "ids_to_disable is not processed_ids", f"len(ids_to_disable) == {n}",
        f"forall(lambda j: ids_to_disable[j] == tok(j), 0, {n})",
        "len(g_added) == len(g_src)",
        sound.format(S="processed_ids", hi="idx"), complete.format(S="processed_ids", hi="idx"),
        f"(len(processed_ids) > 0) == exists(lambda j: {valid('j')}, 0, idx)",
        f"implies(forall(lambda j: {valid('j')}, 0, idx), g_nerr == old(g_nerr))", "g_nerr >= old(g_nerr)",
        f"implies(exists(lambda j: not {valid('j')}, 0, idx), g_nerr > old(g_nerr) and g_errline == actual_line_number)",
    ]
    return toks, norm, valid, pid, n, sound, complete, inv


toks, norm, valid, pid, n, sound, complete, inv = id_list_contract(None, "after_command_index", "next")
TARGET = "actual_line_number + 1"
ENTRY = f"document_pragmas[{TARGET}]"
register(Contract(
    key=PX + "__handle_disable_next_line", properties=P,
    ghost=GH, lets=LETS,
    calls={"log_pragma_failure": LOG, "processed_ids.add": SET_ADD},
    types={"processed_ids": "Set[str]", "all_ids": "Dict[str, FoundPlugin]", "document_pragmas": "Dict[int, Set[str]]"},
    requires=["is_empty(g_pos) and is_empty(g_added) and is_empty(g_src)"],
    ensures=[
        # the following line, and only that line, gets a new entry - and only if at least one named rule is known
        f"forall_val(lambda k: implies(k != {TARGET}, (k in document_pragmas) == old(k in document_pragmas) and document_pragmas[k] is old(document_pragmas[k])))",
        f"implies(exists(lambda j: {valid('j')}, 0, {n}), {TARGET} in document_pragmas)",
        f"implies(not exists(lambda j: {valid('j')}, 0, {n}), ({TARGET} in document_pragmas) == old({TARGET} in document_pragmas))",
        # the entry holds exactly the normalised ids (FoundPlugin.plugin_id) of EVERY known identifier in the list (id or alias, any
        # case, blanks ignored): completeness for every list index, soundness with an explicit witness index g_src[g_pos[x]];
        # unknown or blank entries contribute nothing and do not stop the others
        f"implies(exists(lambda j: {valid('j')}, 0, {n}), " + complete.format(S=ENTRY, hi=n) + ")",
        f"implies(exists(lambda j: {valid('j')}, 0, {n}), " + sound.format(S=ENTRY, hi=n) + ")",
        # a malformed entry is reported (on the pragma's own line), a well-formed list is not
        f"implies(forall(lambda j: {valid('j')}, 0, {n}), g_nerr == old(g_nerr))",
        f"implies(exists(lambda j: not {valid('j')}, 0, {n}), g_nerr > old(g_nerr) and g_errline == actual_line_number)",
    ],
    raises=[],
    modifies=["document_pragmas.$dict", "g_nerr", "g_errline"],
    loops={0: Loop(index="idx", invariant=inv + [
        "forall_val(lambda k: (k in document_pragmas) == old(k in document_pragmas) and document_pragmas[k] is old(document_pragmas[k]))",
    ])},
))
