"""C11 -- pragmas suppress exactly what they name."""
from pyvc.spec import Assumed, Contract, Loop, Raises, register

PX = "pymarkdown/extensions/pragma_token.py::PragmaExtension."
PM = "pymarkdown/plugin_manager/plugin_manager.py::PluginManager."
P = ["C11", "C12"]

LOG = Assumed("log_pragma_failure(scan_file, line, message)", params=["scan_file", "line_number", "message"], pure=True,
              effects=["g_nerr = g_nerr + 1", "g_errline = line_number"],
              why="PluginManager.log_pragma_failure (prints `file:line:1: INLINE: message`, counts); ghost g_nerr counts, g_errline is the last reported line")

TOK = "command_data[{start}:].split(',')"
NORM = "{toks}[{j}].strip(' ').lower()"


def clauses(start):
    toks = TOK.format(start=start)
    norm = lambda j: NORM.format(toks=toks, j=j)
    valid = lambda j: f"(len({norm(j)}) > 0 and {norm(j)} in all_ids)"
    pid = lambda j: f"all_ids[{norm(j)}].plugin_id"
    n = f"len({toks})"
    return toks, norm, valid, pid, n


# Sets of strings built in a loop: "x in S  <=>  exists j ..." needs a witness.  The witness is kept in ghost state by
# instrumenting the (builtin) set.add call: g_pos[x] = position of x in the ghost list g_added, g_src[t] = the index of the
# list entry that caused g_added[t].  All clauses are then universally quantified only.
SET_ADD = Assumed("set.add (instrumented)", params=["x"], pure=False,
                  ensures=["forall_val(lambda y: (y in self) == (old(y in self) or y == x))", "len(self) >= 1", "len(self) >= old(len(self))"],
                  modifies=["self.$dict"],
                  effects=["g_pos[x] = len(g_added)", "g_added.append(x)", "g_src.append(idx)"],
                  why="set.add with its exact membership semantics; the ghost lists record which loop iteration added which element")
GH = {"g_nerr": "int", "g_errline": "int", "g_pos": "Dict[str, int]", "g_added": "List[str]", "g_src": "List[int]"}


def id_list_contract(key, start, target_kind):
    toks, norm, valid0, pid0, n = clauses(start)
    global LETS
    LETS = {"tok_valid": ("j", "bool", valid0("j")), "tok_pid": ("j", "str", pid0("j")), "tok": ("j", "str", f"{toks}[j]"),
            "tok_n": ("j", "int", f"len({toks})")}
    valid = lambda j: f"tok_valid({j})"
    pid = lambda j: f"tok_pid({j})"
    wit = "g_src[g_pos[x]]"
    sound = (f"forall_val(lambda x: implies(x in {{S}}, x in g_pos and 0 <= g_pos[x] and g_pos[x] < len(g_added) and g_added[g_pos[x]] == x "
             f"and 0 <= {wit} and {wit} < {{hi}} and {valid(wit)} and x == {pid(wit)}))")
    complete = f"forall(lambda j: implies({valid('j')}, {pid('j')} in {{S}}), 0, {{hi}})"
    inv = [
        "ids_to_disable is not processed_ids", f"len(ids_to_disable) == {n}",
        f"forall(lambda j: ids_to_disable[j] == tok(j), 0, {n})",
        "len(g_added) == len(g_src)",
        sound.format(S="processed_ids", hi="idx"), complete.format(S="processed_ids", hi="idx"),
        f"(len(processed_ids) > 0) == exists(lambda j: {valid('j')}, 0, idx)",
        f"implies(forall(lambda j: {valid('j')}, 0, idx), g_nerr == old(g_nerr))", "g_nerr >= old(g_nerr)",
        f"implies(exists(lambda j: not {valid('j')}, 0, idx), g_nerr > old(g_nerr) and g_errline == actual_line_number)",
    ]
    return toks, norm, valid, pid, n, sound, complete, inv


toks, norm, valid, pid, n, sound, complete, inv = id_list_contract(None, "after_command_index", "next")
TARGET = "actual_line_number + 1"
ENTRY = f"document_pragmas[{TARGET}]"
register(Contract(
    key=PX + "__handle_disable_next_line", properties=P,
    ghost=GH, lets=LETS,
    calls={"log_pragma_failure": LOG, "processed_ids.add": SET_ADD},
    types={"processed_ids": "Set[str]", "all_ids": "Dict[str, FoundPlugin]", "document_pragmas": "Dict[int, Set[str]]"},
    requires=["is_empty(g_pos) and is_empty(g_added) and is_empty(g_src)"],
    ensures=[
        # the following line, and only that line, gets a new entry - and only if at least one named rule is known
        f"forall_val(lambda k: implies(k != {TARGET}, (k in document_pragmas) == old(k in document_pragmas) and document_pragmas[k] is old(document_pragmas[k])))",
        f"implies(exists(lambda j: {valid('j')}, 0, {n}), {TARGET} in document_pragmas)",
        f"implies(not exists(lambda j: {valid('j')}, 0, {n}), ({TARGET} in document_pragmas) == old({TARGET} in document_pragmas))",
        # the entry holds exactly the normalised ids (FoundPlugin.plugin_id) of EVERY known identifier in the list (id or alias, any
        # case, blanks ignored): completeness for every list index, soundness with an explicit witness index g_src[g_pos[x]];
        # unknown or blank entries contribute nothing and do not stop the others
        f"implies(exists(lambda j: {valid('j')}, 0, {n}), " + complete.format(S=ENTRY, hi=n) + ")",
        f"implies(exists(lambda j: {valid('j')}, 0, {n}), " + sound.format(S=ENTRY, hi=n) + ")",
        # a malformed entry is reported (on the pragma's own line), a well-formed list is not
        f"implies(forall(lambda j: {valid('j')}, 0, {n}), g_nerr == old(g_nerr))",
        f"implies(exists(lambda j: not {valid('j')}, 0, {n}), g_nerr > old(g_nerr) and g_errline == actual_line_number)",
    ],
    raises=[],
    modifies=["document_pragmas.$dict", "g_nerr", "g_errline"],
    loops={0: Loop(index="idx", invariant=inv + [
        "forall_val(lambda k: (k in document_pragmas) == old(k in document_pragmas) and document_pragmas[k] is old(document_pragmas[k]))",
    ])},
))

# ------------------------------------------------------------------------------------------------ disable-num-lines
register(Contract(
    key=PX + "__handle_disable_num_lines_parse", properties=["C11"],
    ghost={"g_nerr": "int", "g_errline": "int"},
    calls={"log_pragma_failure": LOG},
    requires=["0 <= after_command_index and after_command_index <= len(command_data)"],
    ensures=[
        # a count that is missing, not an integer, or < 1, or a missing id list: exactly one error on the pragma's line, and no range
        "implies(not result[0], g_nerr == old(g_nerr) + 1 and g_errline == actual_line_number)",
        "implies(result[0], g_nerr == old(g_nerr) and result[2] is not None and result[2] >= 1 "
        "and after_command_index <= result[1] and result[1] < len(command_data))",
    ],
    raises=[], modifies=["g_nerr", "g_errline"],
))

toks2, norm2, valid2, pid2, n2, sound2, complete2, inv2 = id_list_contract(None, "after_number_index", "range")
# the id list starts where the parse of the count ended: the abbreviations are defined at the loop (after_number_index is a local)
LETS2 = {k: v + ("loop0",) for k, v in LETS.items()}
n2 = "tok_n(0)"
RANGES = "document_pragma_ranges"
LAST = f"{RANGES}[len({RANGES}) - 1]"
register(Contract(
    key=PX + "__handle_disable_num_lines", properties=P,
    ghost=dict(GH, g_after="int", g_count="int", g_ok="bool"), lets=LETS2,
    calls={"log_pragma_failure": LOG, "processed_ids.add": SET_ADD,
           "PragmaExtension.__handle_disable_num_lines_parse": (PX + "__handle_disable_num_lines_parse",
                                                                ["g_ok = result[0]", "g_after = result[1]", "g_count = result[2] if result[0] else 0"])},
    types={"processed_ids": "Set[str]", "all_ids": "Dict[str, FoundPlugin]", "document_pragma_ranges": "List[Tuple[int, int, Set[str]]]"},
    requires=["is_empty(g_pos) and is_empty(g_added) and is_empty(g_src)", "0 <= after_command_index and after_command_index <= len(command_data)"],
    ensures=[
        # earlier ranges are never touched; at most one range is appended
        f"forall(lambda q: {RANGES}[q] == old({RANGES}[q]), 0, old(len({RANGES})))",
        f"len({RANGES}) == old(len({RANGES})) + (1 if (g_ok and exists(lambda j: {valid2('j')}, 0, {n2})) else 0)",
        # a malformed pragma suppresses nothing
        f"implies(not g_ok, len({RANGES}) == old(len({RANGES})) and g_nerr > old(g_nerr))",
        # the new range covers exactly the following N lines: [line + 1, line + N]
        f"implies(len({RANGES}) > old(len({RANGES})), {LAST}[0] == actual_line_number + 1 and {LAST}[1] == actual_line_number + g_count and g_count >= 1)",
        f"implies(len({RANGES}) > old(len({RANGES})), " + complete2.format(S=f"{LAST}[2]", hi=n2) + ")",
        f"implies(len({RANGES}) > old(len({RANGES})), " + sound2.format(S=f"{LAST}[2]", hi=n2) + ")",
    ],
    raises=[],
    modifies=[f"{RANGES}.$list", "g_nerr", "g_errline"],
    loops={0: Loop(index="idx", invariant=inv2 + [
        f"len({RANGES}) == old(len({RANGES}))", f"forall(lambda q: {RANGES}[q] == old({RANGES}[q]), 0, old(len({RANGES})))",
        "g_ok and after_number_index == g_after and count_value == g_count and g_count >= 1", "tok_n(0) == len(ids_to_disable)",
        f"ids_to_disable is not {RANGES}",
    ])},
))

import z3 as _z3
from pyvc.spec import spec_fn
from pyvc.sym import V as _V, vbool as _vbool

_plo = _z3.Function("pragma_line_ok", _z3.IntSort(), _z3.BoolSort(), _z3.BoolSort())


@spec_fn("pragma_line_ok")
def pragma_line_ok(ex, st, args):
    """pragma_line_ok(line, positive_key): what look_for_pragmas guarantees about a stored line (opaque; defined below)"""
    line, pos = args
    return _vbool(_plo(_V.s(line.z), ex.truthy(st, pos)))


# definition: the line is long enough for prefix + title + suffix, and after the prefix and any blanks there is room for 'pyml '
_LA = "{L}[(4 if {POS} else 5):]"
PRAGMA_LINE_OK_DEF = ("pragma_line_ok({L}, {POS}) == (len({L}) >= (4 if {POS} else 5) + 5 + 3 and "
                      "forall(lambda m: implies(forall(lambda k: is_ws(" + _LA + ", k), 0, m) and (m == len(" + _LA + ") or not is_ws(" + _LA + ", m)), "
                      "m + 5 <= len(" + _LA + ")), 0, len(" + _LA + ") + 1))")
LA = "pragma_lines[next_line_number][(4 if next_line_number > 0 else 5):]"
register(Contract(
    key=PX + "compile_single_pragma", properties=["C11"],
    ghost={"g_nerr": "int", "g_errline": "int", "g_kind": "int"},
    calls={"log_pragma_failure": LOG,
           "PragmaExtension.__handle_disable_next_line": (PX + "__handle_disable_next_line", ["g_kind = 1"]),
           "PragmaExtension.__handle_disable_num_lines": (PX + "__handle_disable_num_lines", ["g_kind = 2"])},
    types={"all_ids": "Dict[str, FoundPlugin]", "document_pragmas": "Dict[int, Set[str]]", "pragma_lines": "Dict[int, str]",
           "document_pragma_ranges": "List[Tuple[int, int, Set[str]]]"},
    # stored by look_for_pragmas: the key's sign tells the prefix, the line starts with that prefix and (ignoring case and trailing blanks) ends with -->
    requires=["next_line_number in pragma_lines", "next_line_number != 0", "g_kind == 0",
              "pragma_line_ok(pragma_lines[next_line_number], next_line_number > 0)"],
    definitions=[PRAGMA_LINE_OK_DEF.format(L="pragma_lines[next_line_number]", POS="next_line_number > 0")],
    ensures=[
        # an unknown or missing command is reported and suppresses nothing
        "implies(g_kind == 0, g_nerr == old(g_nerr) + 1 and g_errline == (next_line_number if next_line_number > 0 else -next_line_number))",
        "implies(g_kind == 0, len(document_pragma_ranges) == old(len(document_pragma_ranges)) and "
        "forall_val(lambda k: (k in document_pragmas) == old(k in document_pragmas)))",
        "implies(g_kind == 1, len(document_pragma_ranges) == old(len(document_pragma_ranges)))",
        "implies(g_kind == 2, forall_val(lambda k: (k in document_pragmas) == old(k in document_pragmas)))",
    ],
    raises=[],
    modifies=["document_pragmas.$dict", "document_pragma_ranges.$list", "g_nerr", "g_errline", "g_kind"],
))


# ------------------------------------------------------------------------------------------------ the manager side
from pyvc.spec import REGISTRY as _REG
_REG.pop(PM + "compile_pragmas", None)
register(Contract(
    key=PM + "compile_pragmas", properties=["C11", "C12"],
    ghost={"g_compiled": "Set[int]", "g_ids_ok": "bool", "g_nerr": "int", "g_errline": "int", "g_allids": "Any"},
    types={"pragma_lines": "Dict[int, str]", "self.__all_ids": "Dict[str, FoundPlugin]"},
    calls={"PragmaExtension.compile_single_pragma": (PX + "compile_single_pragma",
                                                     ["g_compiled.add(next_line_number)", "g_ids_ok = g_ids_ok and (all_ids is g_allids)"]),
           "self.log_pragma_failure": LOG},
    requires=["is_empty(g_compiled)", "g_ids_ok", "g_allids is self.__all_ids",
              "forall_val(lambda k: implies(k in pragma_lines, k != 0 and pragma_line_ok(pragma_lines[k], k > 0)))"],
    ensures=[
        # every pragma line of the document is compiled
        # (keys_seq is the sequence of keys the loop iterates: a duplicate-free enumeration of the dictionary's keys)
        "forall(lambda j: keys_seq[j] in g_compiled, 0, len(keys_seq))", "len(keys_seq) == old(len(pragma_lines))",
        # identifiers are resolved against ALL registered rules (enabled or not): what one rule's pragma does never depends on which other rules are enabled
        "g_ids_ok",
    ],
    raises=[],
    modifies=["self.__document_pragmas.$dict", "self.__document_pragma_ranges.$list", "number_of_pragma_failures", "$presentation_state"],
    loops={0: Loop(index="idx", seq_name="keys_seq",
                   frozen_iter="pragma_lines is the map held by the pragma token; compile_single_pragma only reads it",
                   invariant=["g_ids_ok", "forall(lambda j: keys_seq[j] in g_compiled, 0, idx)",
                              "forall_val(lambda k: (k in pragma_lines) == old(k in pragma_lines))"])},
))

# ------------------------------------------------------------------------------------------------ detection
register(Contract(
    key=PX + "look_for_pragmas", properties=["C11", "C20"],
    types={"parser_properties.pragma_lines": "Dict[int, str]", "position_marker.line_number": "int"},
    definitions=[PRAGMA_LINE_OK_DEF.format(L="line_to_parse", POS="True"), PRAGMA_LINE_OK_DEF.format(L="line_to_parse", POS="False")],
    requires=["position_marker.line_number >= 1"],
    ensures=[
        # only a line at the top level (no container, no leading whitespace) that starts with a comment prefix can be a pragma
        "implies(result, not container_depth and not extracted_whitespace and line_to_parse.startswith('<!--'))",
        # a detected pragma is stored under +line (prefix <!--) or -line (prefix <!---), nothing else changes
        "implies(result, forall_val(lambda k: implies(k != position_marker.line_number and k != -position_marker.line_number, "
        "(k in parser_properties.pragma_lines) == old(k in parser_properties.pragma_lines) and "
        "parser_properties.pragma_lines[k] is old(parser_properties.pragma_lines[k]))))",
        "implies(result, (position_marker.line_number in parser_properties.pragma_lines and "
        "parser_properties.pragma_lines[position_marker.line_number] is line_to_parse and pragma_line_ok(line_to_parse, True)) or "
        "(-position_marker.line_number in parser_properties.pragma_lines and "
        "parser_properties.pragma_lines[-position_marker.line_number] is line_to_parse and pragma_line_ok(line_to_parse, False)))",
        # a line that is not a pragma leaves the map alone
        "implies(not result, forall_val(lambda k: (k in parser_properties.pragma_lines) == old(k in parser_properties.pragma_lines) and "
        "parser_properties.pragma_lines[k] is old(parser_properties.pragma_lines[k])))",
    ],
    raises=[],
    modifies=["parser_properties.pragma_lines.$dict"],
))
