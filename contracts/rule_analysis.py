"""
rule_analysis.py -- class-level obligations over the 46 built-in rules and their helper classes (C12, C13, C14).

For every class under pymarkdown/plugins (rules and utils helpers) the analysis computes, from the real AST:

  * per-file fields   : `self.` fields written (assigned, augmented, deleted, item-stored, or mutated through a
                        mutating method) by a method reachable from next_token / next_line / completed_file;
  * configuration fields: fields written only by __init__ / initialize_from_config;
  * reset set          : per-file fields that starting_new_file (or a self-method it calls, or the reset method of
                        an owned helper) assigns a value that is a function of constants and configuration fields only.

C13 obligation rel.<Class>.<field>: every per-file field is in the reset set, or has a recorded disposition
(specs/per_file_dispositions.json: guarded / drained / dead, each with its own syntactic side-condition).
This is the 2-safety statement "two instances with equal configuration agree on every per-file field after
starting_new_file", decided by syntactic determinism of the assigned expressions.

C12 obligation frame.<Class>.<method>@line: every write site in a rule / helper method has a root that is `self`
or a local bound to a freshly created object; the delivered token, the context (except through its reporting / fix
API), module globals and class attributes are never written.
"""
from __future__ import annotations

import ast
import json
import os
from typing import Any, Dict, List, Optional, Set, Tuple

from pyvc import front

from .structural import check, parse, py_files

HERE = os.path.dirname(os.path.abspath(__file__))
MUTATORS = {"append", "extend", "insert", "clear", "pop", "remove", "add", "discard", "update", "sort", "setdefault", "popitem",
            "reverse", "appendleft", "popleft"}
CALLBACKS = ("next_token", "next_line", "completed_file")
CONFIG_METHODS = ("__init__", "initialize_from_config", "get_details", "query_config")


class ClassFacts:
    def __init__(self, rel: str, node: ast.ClassDef):
        self.rel = rel
        self.node = node
        self.name = node.name
        self.methods: Dict[str, ast.FunctionDef] = {m.name: m for m in node.body if isinstance(m, ast.FunctionDef)}
        self.bases = [ast.unparse(b) for b in node.bases]

    def self_calls(self, m: ast.FunctionDef) -> Set[str]:
        out = set()
        for n in ast.walk(m):
            if isinstance(n, ast.Call) and isinstance(n.func, ast.Attribute) and isinstance(n.func.value, ast.Name) and n.func.value.id == "self":
                if n.func.attr in self.methods:
                    out.add(n.func.attr)
        return out

    def reachable(self, roots: Tuple[str, ...]) -> Set[str]:
        seen: Set[str] = set()
        work = [r for r in roots if r in self.methods]
        while work:
            m = work.pop()
            if m in seen:
                continue
            seen.add(m)
            work.extend(self.self_calls(self.methods[m]) - seen)
        return seen

    @staticmethod
    def self_field(n: ast.AST) -> Optional[str]:
        """`self.f` or `self.f[...]...` -> f"""
        while isinstance(n, ast.Subscript):
            n = n.value
        if isinstance(n, ast.Attribute) and isinstance(n.value, ast.Name) and n.value.id == "self":
            return n.attr
        return None

    def writes(self, m: ast.FunctionDef) -> Dict[str, List[Tuple[int, str]]]:
        """field -> [(line, kind)] for every write of a self field inside method m (not following calls)"""
        out: Dict[str, List[Tuple[int, str]]] = {}

        def add(f, line, kind):
            if f:
                out.setdefault(f, []).append((line, kind))

        for n in ast.walk(m):
            if isinstance(n, ast.Assign):
                for t in n.targets:
                    for e in (t.elts if isinstance(t, (ast.Tuple, ast.List)) else [t]):
                        if isinstance(e, ast.Attribute):
                            add(self.self_field(e), n.lineno, "assign")
                        elif isinstance(e, ast.Subscript):
                            add(self.self_field(e), n.lineno, "item")
            elif isinstance(n, ast.AnnAssign) and n.value is not None:
                if isinstance(n.target, ast.Attribute):
                    add(self.self_field(n.target), n.lineno, "assign")
            elif isinstance(n, ast.AugAssign):
                add(self.self_field(n.target), n.lineno, "aug" if isinstance(n.target, ast.Attribute) else "item")
            elif isinstance(n, ast.Delete):
                for t in n.targets:
                    add(self.self_field(t), n.lineno, "del")
            elif isinstance(n, ast.Call) and isinstance(n.func, ast.Attribute) and n.func.attr in MUTATORS:
                add(self.self_field(n.func.value), n.lineno, "mutate:" + n.func.attr)
        return out


_CLASSES: Optional[Dict[str, ClassFacts]] = None


def plugin_classes() -> Dict[str, ClassFacts]:
    global _CLASSES
    if _CLASSES is None or os.environ.get("PYVC_NOCACHE"):
        _CLASSES = {}
        for rel, full in py_files("pymarkdown/plugins"):
            if os.path.basename(rel) in ("plugin_one.py", "__init__.py"):
                continue
            for n in parse(full).body:
                if isinstance(n, ast.ClassDef):
                    _CLASSES[n.name] = ClassFacts(rel, n)
    return _CLASSES


def is_rule(cf: ClassFacts) -> bool:
    return "RulePlugin" in cf.bases


# ------------------------------------------------------------------------------------------------ C13
def deterministic(expr: ast.expr, config_fields: Set[str], cf: ClassFacts, depth: int = 0) -> bool:
    """Is the value of expr a function of constants and configuration fields only?"""
    if isinstance(expr, ast.Constant):
        return True
    if isinstance(expr, (ast.List, ast.Tuple, ast.Set)):
        return all(deterministic(e, config_fields, cf) for e in expr.elts)
    if isinstance(expr, ast.Dict):
        return all(k is not None and deterministic(k, config_fields, cf) for k in expr.keys) and all(deterministic(v, config_fields, cf) for v in expr.values)
    if isinstance(expr, ast.Attribute):
        if isinstance(expr.value, ast.Name) and expr.value.id == "self":
            return expr.attr in config_fields
        if isinstance(expr.value, ast.Name) and expr.value.id[:1].isupper():
            return True  # class constant  RuleX.__const  /  Enum member
        return False
    if isinstance(expr, ast.UnaryOp):
        return deterministic(expr.operand, config_fields, cf)
    if isinstance(expr, ast.BinOp):
        return deterministic(expr.left, config_fields, cf) and deterministic(expr.right, config_fields, cf)
    if isinstance(expr, ast.IfExp):
        return all(deterministic(e, config_fields, cf) for e in (expr.test, expr.body, expr.orelse))
    if isinstance(expr, ast.Compare):
        return deterministic(expr.left, config_fields, cf) and all(deterministic(c, config_fields, cf) for c in expr.comparators)
    if isinstance(expr, ast.BoolOp):
        return all(deterministic(v, config_fields, cf) for v in expr.values)
    if isinstance(expr, ast.Call):
        f = expr.func
        args_ok = all(deterministic(a, config_fields, cf) for a in expr.args) and all(deterministic(k.value, config_fields, cf) for k in expr.keywords)
        if isinstance(f, ast.Name) and (f.id in ("set", "dict", "list", "tuple", "int", "str", "bool", "len") or f.id[:1].isupper()):
            return args_ok  # constructor of a fresh object / pure builtin
        if isinstance(f, ast.Attribute) and isinstance(f.value, ast.Name) and f.value.id == "self" and depth < 2:
            m = cf.methods.get(f.attr)
            if m is not None and args_ok:
                rets = [n.value for n in ast.walk(m) if isinstance(n, ast.Return) and n.value is not None]
                return bool(rets) and all(deterministic(r, config_fields, cf, depth + 1) for r in rets) and not cf.writes(m)
        return False
    return False


def class_facts(cf: ClassFacts):
    classes = plugin_classes()
    per_file_methods = cf.reachable(CALLBACKS) if is_rule(cf) else {m for m in cf.methods if m not in ("__init__",)}
    # helper classes: every public method may be called per file, except the ones that only reset
    all_writes: Dict[str, Dict[str, List[Tuple[int, str]]]] = {m: cf.writes(fn) for m, fn in cf.methods.items()}
    written_anywhere: Set[str] = set()
    for w in all_writes.values():
        written_anywhere |= set(w)
    reset_methods = cf.reachable(("starting_new_file",)) if is_rule(cf) else cf.reachable(("starting_new_file", "clear", "reset"))
    per_file: Dict[str, List[Tuple[str, int, str]]] = {}
    for m in per_file_methods - set(CONFIG_METHODS) - (reset_methods if not is_rule(cf) else {"starting_new_file"}):
        for f, sites in all_writes.get(m, {}).items():
            for line, kind in sites:
                per_file.setdefault(f, []).append((m, line, kind))
    config_fields = {f for f in written_anywhere
                     if all(m in CONFIG_METHODS for m, w in all_writes.items() if f in w)}
    return per_file, config_fields, reset_methods, all_writes


def field_is_reset(cf: ClassFacts, f: str, config_fields: Set[str], reset_methods: Set[str]) -> Tuple[bool, str]:
    """starting_new_file (or a method it calls) assigns f unconditionally-or-conditionally a deterministic value on every
    path: we require an assignment `self.f = <deterministic>` at the top level of a reset method (not nested in if/for/while/try),
    or `self.f.clear()`, or (owned helper) a call `self.f.<reset method>()` where the helper class resets all its fields."""
    classes = plugin_classes()
    for mname in reset_methods:
        m = cf.methods[mname]
        for stmt in m.body:
            targets: List[Tuple[ast.expr, ast.expr]] = []
            if isinstance(stmt, ast.Assign):
                for t in stmt.targets:
                    if isinstance(t, (ast.Tuple, ast.List)) and isinstance(stmt.value, (ast.Tuple, ast.List)) and len(t.elts) == len(stmt.value.elts):
                        targets.extend(zip(t.elts, stmt.value.elts))
                    else:
                        targets.append((t, stmt.value))
            elif isinstance(stmt, ast.AnnAssign) and stmt.value is not None:
                targets.append((stmt.target, stmt.value))
            for t, v in targets:
                if isinstance(t, ast.Attribute) and ClassFacts.self_field(t) == f and not isinstance(t.value, ast.Subscript):
                    if deterministic(v, config_fields, cf):
                        return True, f"assigned in {mname}@{stmt.lineno}"
                    return False, f"assigned a non-deterministic value in {mname}@{stmt.lineno}: {ast.unparse(v)[:60]}"
            if isinstance(stmt, ast.Expr) and isinstance(stmt.value, ast.Call) and isinstance(stmt.value.func, ast.Attribute):
                c = stmt.value
                if ClassFacts.self_field(c.func.value) == f and isinstance(c.func.value, ast.Attribute):
                    if c.func.attr == "clear":
                        return True, f"cleared in {mname}@{stmt.lineno}"
                    # owned helper object: its own reset method
                    helper = helper_class_of(cf, f)
                    if helper is not None and c.func.attr in helper.methods and c.func.attr in ("starting_new_file", "clear", "reset"):
                        ok, why = helper_fully_reset(helper, c.func.attr)
                        return ok, f"helper {helper.name}.{c.func.attr}() in {mname}@{stmt.lineno}: {why}"
    return False, "no top-level deterministic assignment in starting_new_file"


def helper_class_of(cf: ClassFacts, f: str) -> Optional[ClassFacts]:
    classes = plugin_classes()
    init = cf.methods.get("__init__")
    for m in [init] + [x for n, x in cf.methods.items() if n != "__init__"]:
        if m is None:
            continue
        for n in ast.walk(m):
            if isinstance(n, (ast.Assign, ast.AnnAssign)):
                ts = n.targets if isinstance(n, ast.Assign) else [n.target]
                v = n.value
                for t in ts:
                    if isinstance(t, ast.Attribute) and ClassFacts.self_field(t) == f and isinstance(v, ast.Call) and isinstance(v.func, ast.Name) and v.func.id in classes:
                        return classes[v.func.id]
    return None


def helper_fully_reset(h: ClassFacts, method: str) -> Tuple[bool, str]:
    per_file, config_fields, _, _ = class_facts(h)
    resetters = h.reachable((method,))
    bad = []
    for f in per_file:
        ok, why = field_is_reset_in(h, f, config_fields, resetters)
        if not ok and dispositions().get(f"{h.name}.{f}") is None:
            bad.append(f)
    return (not bad), ("all per-file fields reset" if not bad else f"fields not reset: {bad}")


def field_is_reset_in(cf: ClassFacts, f: str, config_fields: Set[str], methods: Set[str]) -> Tuple[bool, str]:
    return field_is_reset(cf, f, config_fields, methods)


_DISP: Optional[Dict[str, Any]] = None


def dispositions() -> Dict[str, Any]:
    global _DISP
    if _DISP is None:
        p = os.path.join(HERE, "..", "specs", "per_file_dispositions.json")
        _DISP = json.load(open(p)) if os.path.exists(p) else {}
    return _DISP


def reads_of(cf: ClassFacts, f: str) -> List[Tuple[str, int]]:
    out = []
    for mname, m in cf.methods.items():
        for n in ast.walk(m):
            if isinstance(n, ast.Attribute) and isinstance(n.ctx, ast.Load) and isinstance(n.value, ast.Name) and n.value.id == "self" and n.attr == f:
                out.append((mname, n.lineno))
    return out


def check_disposition(cf: ClassFacts, f: str, d: Dict[str, Any]) -> Tuple[bool, str]:
    """Side conditions of a recorded disposition, re-checked on every run."""
    kind = d["kind"]
    if kind == "drained":
        # a work list that is emptied before the callback that fills it returns: every method that appends to it also
        # contains a loop `while self.f: ... del self.f[0]` / `self.f.clear()` / reassignment to a fresh list after use
        ok = False
        for mname, m in cf.methods.items():
            src = ast.unparse(m)
            if f"self.{f}" in src and (f"del self.{f}[" in src or f"self.{f}.clear()" in src or f"self.{f} = []" in src or f"self.{f} = {{}}" in src):
                ok = True
        return ok, "a draining statement exists" if ok else "no draining statement found any more"
    if kind == "guarded":
        # every read of f is in a method that also tests the guard field, and the guard field is reset
        g = d["guard"]
        per_file, config_fields, reset_methods, _ = class_facts(cf)
        gok, gwhy = field_is_reset(cf, g, config_fields, reset_methods)
        if not gok:
            return False, f"guard field {g} is not reset: {gwhy}"
        for mname, line in reads_of(cf, f):
            if f"self.{g}" not in ast.unparse(cf.methods[mname]) and not d.get("reads_via_guarded_callers"):
                return False, f"read of {f} at {mname}@{line} is not in a method that tests the guard {g}"
        return True, f"guard {g} is reset ({gwhy}) and is tested wherever {f} is read"
    if kind == "dead":
        # read only inside expressions stored back into the same field
        for mname, line in reads_of(cf, f):
            m = cf.methods[mname]
            fine = False
            for n in ast.walk(m):
                if isinstance(n, (ast.Assign, ast.AugAssign)) and getattr(n, "lineno", -1) <= line <= getattr(n, "end_lineno", -1):
                    ts = n.targets if isinstance(n, ast.Assign) else [n.target]
                    if any(ClassFacts.self_field(t) == f for t in ts):
                        fine = True
            if not fine:
                return False, f"{f} is read at {mname}@{line} outside an assignment to itself"
        return True, "only read to update itself"
    if kind == "conditional":
        # (1) starting_new_file contains a top-level `if <configuration-only test>: self.f = <deterministic>`
        # (2) every per-file write of f sits in the else-branch of `if self.f:` (f is only written while it is falsy)
        per_file, config_fields, reset_methods, _ = class_facts(cf)
        one = False
        for mname in reset_methods:
            for stmt in cf.methods[mname].body:
                if isinstance(stmt, ast.If) and not stmt.orelse and deterministic(stmt.test, config_fields, cf):
                    for s2 in stmt.body:
                        if isinstance(s2, ast.Assign) and any(ClassFacts.self_field(t) == f for t in s2.targets) and deterministic(s2.value, config_fields, cf):
                            one = True
        if not one:
            return False, "no `if <configuration test>: self.f = <deterministic>` at the top level of starting_new_file"
        for mname, line, kind_ in per_file.get(f, []):
            m = cf.methods[mname]
            guarded = False
            for n in ast.walk(m):
                if isinstance(n, ast.If) and ast.unparse(n.test) == f"self.{front.mangle(f, None)}" or (isinstance(n, ast.If) and ast.unparse(n.test).endswith(f"self.{f}")):
                    if any(getattr(x, "lineno", -1) == line for o in n.orelse for x in ast.walk(o)):
                        guarded = True
            if not guarded:
                return False, f"write of {f} at {mname}@{line} is not in the else-branch of `if self.{f}`"
        return True, "reset under a configuration-only condition; otherwise written only while empty"
    if kind == "config":
        return True, d.get("why", "")
    return False, f"unknown disposition {kind}"


@check("C13")
def rule_resets() -> List[Dict[str, Any]]:
    """rel.<Class>.<field>: after starting_new_file every per-file field of a rule (and of its owned helpers) has a value
    that depends on the configuration only"""
    out = []
    for cf in plugin_classes().values():
        per_file, config_fields, reset_methods, _ = class_facts(cf)
        if not is_rule(cf):
            continue
        if per_file and "starting_new_file" not in cf.methods:
            out.append({"name": f"structural::C13::rel.{cf.name}.<no starting_new_file>", "ok": False,
                        "info": "rule keeps per-file state but has no starting_new_file", "detail": f"{cf.rel}: fields {sorted(per_file)}"})
            continue
        for f, sites in sorted(per_file.items()):
            ok, why = field_is_reset(cf, f, config_fields, reset_methods)
            name = f"structural::C13::rel.{cf.name}.{f}"
            if not ok:
                d = dispositions().get(f"{cf.name}.{f}")
                if d is not None:
                    ok, why2 = check_disposition(cf, f, d)
                    why = f"disposition {d['kind']}: {why2}"
            rec = {"name": name, "ok": ok, "info": f"{cf.rel}: field {f} (written per file at {sites[0][0]}@{sites[0][1]}) is reset by starting_new_file",
                   "detail": why}
            if not ok:
                rec["replay"] = replay_reset(cf, f)
            out.append(rec)
    return out


@check("C13")
def helper_resets() -> List[Dict[str, Any]]:
    """helper classes of rules (plugins/utils): every mutable field is reset by the reset method their owner calls, or the
    helper is re-created per file"""
    out = []
    for cf in plugin_classes().values():
        if is_rule(cf) or not cf.methods:
            continue
        per_file, config_fields, reset_methods, _ = class_facts(cf)
        for f, sites in sorted(per_file.items()):
            ok, why = field_is_reset(cf, f, config_fields, reset_methods)
            if not ok:
                d = dispositions().get(f"{cf.name}.{f}")
                if d is not None:
                    ok, why2 = check_disposition(cf, f, d)
                    why = f"disposition {d['kind']}: {why2}"
                elif not reset_methods:
                    # no reset method at all: the owner must re-create the helper in starting_new_file
                    owners = [o for o in plugin_classes().values() if any(helper_class_of(o, g) is cf for g in {x for m in o.methods.values() for x in o.writes(m)})]
                    recreated = []
                    for o in owners:
                        pf, cfg, rm, _ = class_facts(o)
                        for g in pf.keys() | cfg:
                            if helper_class_of(o, g) is cf:
                                r_ok, _ = field_is_reset(o, g, cfg, rm)
                                recreated.append(r_ok)
                    ok = bool(recreated) and all(recreated)
                    why = "helper is re-created by every owner's starting_new_file" if ok else why
            out.append({"name": f"structural::C13::rel.{cf.name}.{f}", "ok": ok,
                        "info": f"{cf.rel}: helper field {f} is reset between files", "detail": why})
    return out


def replay_reset(cf: ClassFacts, f: str) -> Dict[str, Any]:
    """Native replay of a failed rel.<Class>.<field>: two real instances with equal configuration, the field set to two
    different values (as two different earlier files would leave it), the real starting_new_file, compare."""
    import subprocess
    import sys
    import tempfile

    mod = cf.rel[:-3].replace("/", ".")
    mangled = front.mangle(f, cf.name)
    _, config_fields, _, _ = class_facts(cf)
    cfg = sorted(front.mangle(x, cf.name) for x in config_fields)
    code = f"""
import sys
sys.path.insert(0, {front.REPO_ROOT!r})
import importlib
m = importlib.import_module({mod!r})
C = getattr(m, {cf.name!r})
consts = [v for k, v in vars(C).items() if isinstance(v, str) and not k.startswith('__') and not callable(v)]
configs = [None] + [(fld, v) for fld in {cfg!r} for v in consts]
worst = 0
for cfgchoice in configs:
    a, b = C(), C()
    for o, v in ((a, 'left-by-file-A'), (b, 'left-by-file-B')):
        if cfgchoice is not None and isinstance(getattr(o, cfgchoice[0], None), str):
            setattr(o, cfgchoice[0], cfgchoice[1])        # equal configuration on both instances
        old = getattr(o, {mangled!r}, None)
        if isinstance(old, bool): v = (v == 'left-by-file-A')
        elif isinstance(old, int): v = 1 if v == 'left-by-file-A' else 2
        elif isinstance(old, list): v = [v]
        elif isinstance(old, dict): v = {{v: 1}}
        elif isinstance(old, set): v = {{v}}
        setattr(o, {mangled!r}, v)
    for o in (a, b):
        try:
            o.starting_new_file()
        except Exception as e:
            print('starting_new_file raised', type(e).__name__)
    va, vb = getattr(a, {mangled!r}), getattr(b, {mangled!r})
    if va != vb:
        print('configuration', cfgchoice, ': after starting_new_file the field still differs:', repr(va), '|', repr(vb))
        worst = 1
        break
if not worst:
    print('no configuration tried made the two instances differ')
sys.exit(worst)
"""
    try:
        with tempfile.NamedTemporaryFile("wt", suffix=".py", delete=False) as fh:
            fh.write(code)
            path = fh.name
        py = "/venv/bin/python" if os.path.exists("/venv/bin/python") else sys.executable
        p = subprocess.run([py, path], capture_output=True, text=True, timeout=60)
        os.remove(path)
        return {"reproduced": p.returncode == 1, "observed": (p.stdout + p.stderr)[-500:],
                "how": f"two fresh {cf.name} instances, field {mangled} set to two different values, real starting_new_file() called on both, values compared",
                "script": code}
    except Exception as e:  # replay is best effort
        return {"reproduced": False, "reason": f"{type(e).__name__}: {e}"}


# ------------------------------------------------------------------------------------------------ C12: frames of the rules
TOKEN_MUTATORS_CACHE: Optional[Set[str]] = None
CONTEXT_API = {"add_triggered_rule", "register_fix_token_request", "register_replace_tokens_request", "set_current_fix_line",
               "get_fix_token_map", "get_replace_tokens_list"}
CONTEXT_READS = {"in_fix_mode", "scan_file", "line_number", "is_during_line_pass", "last_line_fixed", "current_fix_line"}
FRESH_METHODS = {"split", "rsplit", "splitlines", "copy", "strip", "lstrip", "rstrip", "lower", "upper", "replace", "join", "format",
                 "keys", "values", "items", "title", "capitalize"}
FRESH_CALLS = {"copy.deepcopy", "copy.copy", "deepcopy", "list", "dict", "set", "tuple", "sorted", "str", "int"}


def token_mutators() -> Set[str]:
    """methods of the token classes (pymarkdown/tokens, extensions/*token*) that assign to self.* (transitively via self calls)"""
    global TOKEN_MUTATORS_CACHE
    if TOKEN_MUTATORS_CACHE is not None:
        return TOKEN_MUTATORS_CACHE
    direct: Dict[str, Set[str]] = {}
    calls: Dict[str, Set[str]] = {}
    for rel, full in list(py_files("pymarkdown/tokens")) + [x for x in py_files("pymarkdown/extensions") if "token" in x[0]]:
        for n in parse(full).body:
            if isinstance(n, ast.ClassDef):
                for m in n.body:
                    if isinstance(m, ast.FunctionDef) and m.name != "__init__":
                        w = False
                        for x in ast.walk(m):
                            if isinstance(x, ast.Attribute) and isinstance(x.ctx, (ast.Store, ast.Del)) and isinstance(x.value, ast.Name) and x.value.id == "self":
                                w = True
                            if isinstance(x, ast.Call) and isinstance(x.func, ast.Attribute) and x.func.attr in MUTATORS \
                                    and isinstance(x.func.value, ast.Attribute) and isinstance(x.func.value.value, ast.Name) and x.func.value.value.id == "self":
                                w = True
                            if isinstance(x, ast.Call) and isinstance(x.func, ast.Attribute) and isinstance(x.func.value, ast.Name) and x.func.value.id == "self":
                                calls.setdefault(m.name, set()).add(x.func.attr)
                        if w:
                            direct.setdefault(m.name, set()).add(n.name)
    mut = set(direct)
    changed = True
    while changed:
        changed = False
        for m, cs in calls.items():
            if m not in mut and cs & mut:
                mut.add(m)
                changed = True
    TOKEN_MUTATORS_CACHE = mut
    return mut


def root_name(e: ast.AST) -> Optional[str]:
    while isinstance(e, (ast.Attribute, ast.Subscript)):
        e = e.value
    if isinstance(e, ast.Call):
        return None
    return e.id if isinstance(e, ast.Name) else None


def is_fresh_expr(v: ast.expr, owned: Set[str]) -> bool:
    """value is a newly created object (constructor, copy, literal, comprehension) or derived from an owned local / self"""
    if isinstance(v, (ast.List, ast.Dict, ast.Set, ast.Tuple, ast.ListComp, ast.DictComp, ast.SetComp, ast.Constant, ast.JoinedStr)):
        return True
    if isinstance(v, ast.Subscript) and isinstance(v.slice, ast.Slice):
        return True  # a slice is a new list / str
    if isinstance(v, ast.BinOp):
        return True  # + / % build new objects (lists, strings, ints)
    if isinstance(v, ast.IfExp):
        return is_fresh_expr(v.body, owned) and is_fresh_expr(v.orelse, owned)
    if isinstance(v, ast.Call) and isinstance(v.func, ast.Name) and v.func.id == "cast" and len(v.args) == 2:
        return is_fresh_expr(v.args[1], owned)
    if isinstance(v, ast.Call):
        fn = ast.unparse(v.func)
        if isinstance(v.func, ast.Attribute) and v.func.attr in FRESH_METHODS:
            return True
        if fn in FRESH_CALLS or (isinstance(v.func, ast.Name) and v.func.id[:1].isupper()):
            return True
        if isinstance(v.func, ast.Attribute) and isinstance(v.func.value, ast.Name) and v.func.value.id[:1].isupper():
            return True  # Class.factory(...)
        r = root_name(v.func)
        return r == "self" or r in owned
    r = root_name(v)
    return r == "self" or r in owned


_OWNED_PARAMS: Dict[str, Dict[str, Set[str]]] = {}


def local_ownership(m: ast.FunctionDef, owned0: Set[str]) -> Set[str]:
    owned = set(owned0)
    for n in ast.walk(m):
        if isinstance(n, ast.Assign) and len(n.targets) == 1 and isinstance(n.targets[0], ast.Name):
            if is_fresh_expr(n.value, owned):
                owned.add(n.targets[0].id)
        elif isinstance(n, (ast.AnnAssign, ast.NamedExpr)) and isinstance(n.target, ast.Name) and n.value is not None:
            if is_fresh_expr(n.value, owned):
                owned.add(n.target.id)
    return owned


def owned_params(cf: ClassFacts) -> Dict[str, Set[str]]:
    """private-method parameters that receive a freshly created (owned) object at every call site inside the class"""
    if cf.name in _OWNED_PARAMS and not os.environ.get("PYVC_NOCACHE"):
        return _OWNED_PARAMS[cf.name]
    res: Dict[str, Set[str]] = {}
    for _ in range(4):  # small fixpoint
        changed = False
        for mname, m in cf.methods.items():
            if not mname.startswith("_") or mname.startswith("__init__"):
                continue
            params = [a.arg for a in m.args.posonlyargs + m.args.args + m.args.kwonlyargs if a.arg != "self"]
            sites = []
            for oname, om in cf.methods.items():
                for n in ast.walk(om):
                    if isinstance(n, ast.Call) and isinstance(n.func, ast.Attribute) and isinstance(n.func.value, ast.Name) \
                            and n.func.value.id == "self" and n.func.attr == mname:
                        sites.append((om, n))
            if not sites:
                continue
            good = set()
            for i, p_ in enumerate(params):
                if p_ in ("token", "context"):
                    continue
                ok = True
                for om, call in sites:
                    owned_there = local_ownership(om, res.get(om.name, set()))
                    arg = call.args[i] if i < len(call.args) else next((k.value for k in call.keywords if k.arg == p_), None)
                    if arg is None or not is_fresh_expr(arg, owned_there):
                        ok = False
                if ok:
                    good.add(p_)
            if good != res.get(mname, set()):
                res[mname] = good
                changed = True
        if not changed:
            break
    _OWNED_PARAMS[cf.name] = res
    return res


def method_frame_violations(cf: ClassFacts, m: ast.FunctionDef) -> List[Tuple[int, str]]:
    params = [a.arg for a in m.args.posonlyargs + m.args.args + m.args.kwonlyargs]
    owned: Set[str] = set(owned_params(cf).get(m.name, set()))
    foreign = set(p for p in params if p != "self" and p not in owned)
    bad: List[Tuple[int, str]] = []
    muts = token_mutators()

    # one forward pass over assignments (flow-insensitive but order-aware for simple rebinding)
    for n in ast.walk(m):
        if isinstance(n, ast.Assign) and len(n.targets) == 1 and isinstance(n.targets[0], ast.Name):
            name = n.targets[0].id
            if is_fresh_expr(n.value, owned):
                owned.add(name)
                foreign.discard(name)
            else:
                foreign.add(name)
        elif isinstance(n, (ast.AnnAssign, ast.NamedExpr)) and isinstance(n.target, ast.Name) and n.value is not None:
            if is_fresh_expr(n.value, owned):
                owned.add(n.target.id)
            else:
                foreign.add(n.target.id)
        elif isinstance(n, (ast.For, ast.comprehension)):
            for t in ast.walk(n.target):
                if isinstance(t, ast.Name):
                    (owned if is_fresh_expr(n.iter, owned) else foreign).add(t.id)

    def check_target(t: ast.AST, line: int, what: str):
        if isinstance(t, ast.Name):
            return
        r = root_name(t)
        if r is None:
            bad.append((line, f"{what} through a call result: {ast.unparse(t)[:60]}"))
        elif r == "self" or r in owned and r not in ("token", "context"):
            return
        elif r in ("cls",) or r[:1].isupper():
            bad.append((line, f"{what} of class-level state {ast.unparse(t)[:60]}"))
        else:
            bad.append((line, f"{what} of foreign object {ast.unparse(t)[:60]} (root `{r}`)"))

    for n in ast.walk(m):
        if isinstance(n, (ast.Global, ast.Nonlocal)):
            bad.append((n.lineno, "global/nonlocal"))
        elif isinstance(n, ast.Assign):
            for t in n.targets:
                for e in (t.elts if isinstance(t, (ast.Tuple, ast.List)) else [t]):
                    if isinstance(e, (ast.Attribute, ast.Subscript)):
                        check_target(e, n.lineno, "store")
        elif isinstance(n, (ast.AugAssign, ast.AnnAssign)) and isinstance(n.target, (ast.Attribute, ast.Subscript)):
            check_target(n.target, n.lineno, "store")
        elif isinstance(n, ast.Delete):
            for t in n.targets:
                if isinstance(t, (ast.Attribute, ast.Subscript)):
                    check_target(t, n.lineno, "del")
        elif isinstance(n, ast.Call) and isinstance(n.func, ast.Attribute):
            recv = n.func.value
            r = root_name(recv)
            if n.func.attr in MUTATORS and not isinstance(recv, ast.Name):
                check_target(recv, n.lineno, f"mutating call .{n.func.attr}()")
            elif n.func.attr in MUTATORS and isinstance(recv, ast.Name) and recv.id in foreign and recv.id not in owned:
                bad.append((n.lineno, f"mutating call .{n.func.attr}() on foreign local `{recv.id}`"))
            elif n.func.attr in muts and n.func.attr not in cf.methods:
                if not (r == "self" or (r in owned and r not in ("token", "context"))):
                    bad.append((n.lineno, f"token mutator .{n.func.attr}() on `{ast.unparse(recv)[:40]}` which is not a fresh copy"))
            elif r == "context" and isinstance(recv, ast.Name):
                if n.func.attr not in CONTEXT_API:
                    bad.append((n.lineno, f"context.{n.func.attr}() is not part of the reporting / fix API"))
    return bad


@check("C12")
def rule_frames():
    """frame.<Class>.<method>: a rule (or rule helper) writes only its own state: no store / del / mutating call whose root
    is the delivered token, the context (outside its reporting and fix API), a module global or a class attribute"""
    out = []
    for cf in plugin_classes().values():
        for mname, m in cf.methods.items():
            bad = method_frame_violations(cf, m)
            out.append({"name": f"structural::C12::frame.{cf.name}.{mname}", "ok": not bad,
                        "info": f"{cf.rel}: {cf.name}.{mname} writes only state owned by the rule instance", "detail": "; ".join(f"@{l}: {w}" for l, w in bad)})
    # module-level mutable state in plugin modules
    for rel, full in py_files("pymarkdown/plugins"):
        if os.path.basename(rel) in ("plugin_one.py", "__init__.py"):
            continue
        glob = [n.lineno for n in parse(full).body if isinstance(n, (ast.Assign, ast.AnnAssign)) and not
                (isinstance(getattr(n, "value", None), ast.Constant))]
        out.append({"name": f"structural::C12::no_module_state[{rel}]", "ok": not glob, "info": "rule modules keep no module-level mutable state",
                    "detail": f"module-level assignments at lines {glob}"})
    return out


def guarded_by_fix_mode(cf: ClassFacts, mname: str, call: ast.Call, seen=None) -> bool:
    """the call is inside an `if` whose test mentions in_fix_mode (positively), or every call site of the enclosing method is"""
    seen = seen or set()
    if mname in seen:
        return False
    seen.add(mname)
    m = cf.methods[mname]

    def enclosing_ifs(fn, target):
        path = []

        def walk(node, acc):
            for ch in ast.iter_child_nodes(node):
                if ch is target:
                    path.extend(acc)
                    return True
                nacc = acc
                if isinstance(node, ast.If):
                    nacc = acc + [(node, ch in node.body or any(ch is x for b in node.body for x in ast.walk(b)))]
                if walk(ch, nacc):
                    return True
            return False

        walk(fn, [])
        return path

    for ifnode, in_body in enclosing_ifs(m, call):
        t = ast.unparse(ifnode.test)
        if "in_fix_mode" in t and in_body and not t.strip().startswith("not "):
            return True
    # all call sites of this method inside the class
    sites = []
    for oname, om in cf.methods.items():
        for n in ast.walk(om):
            if isinstance(n, ast.Call) and isinstance(n.func, ast.Attribute) and isinstance(n.func.value, ast.Name) and n.func.value.id == "self" and n.func.attr == mname:
                sites.append((oname, n))
    return bool(sites) and all(guarded_by_fix_mode(cf, o, c, seen) for o, c in sites)


@check("C12", "C14")
def fix_line_only_in_fix_mode():
    """a rule calls context.set_current_fix_line only on paths where context.in_fix_mode holds (PluginManager.next_line hands a
    changed line to the following rules without testing the mode; this is the callee-side fact its contract assumes)"""
    out = []
    for cf in plugin_classes().values():
        for mname, m in cf.methods.items():
            for n in ast.walk(m):
                if isinstance(n, ast.Call) and isinstance(n.func, ast.Attribute) and n.func.attr == "set_current_fix_line":
                    ok = guarded_by_fix_mode(cf, mname, n)
                    out.append({"name": f"structural::C12::fix_line_guard.{cf.name}.{mname}@{n.lineno - m.lineno}", "ok": ok,
                                "info": fix_line_only_in_fix_mode.__doc__, "detail": f"{cf.rel}:{n.lineno}"})
    return out


@check("C12")
def helpers_per_instance():
    """every helper object a rule uses is created by that rule instance (constructor call stored in a self field inside
    __init__ / starting_new_file); no helper is a module-level or class-level singleton"""
    out = []
    helpers = {c.name for c in plugin_classes().values() if not is_rule(c)}
    for cf in plugin_classes().values():
        for n in cf.node.body:
            if isinstance(n, (ast.Assign, ast.AnnAssign)) and isinstance(getattr(n, "value", None), ast.Call):
                fn = ast.unparse(n.value.func)
                if fn in helpers:
                    out.append({"name": f"structural::C12::helper_singleton.{cf.name}@{n.lineno}", "ok": False, "info": helpers_per_instance.__doc__,
                                "detail": f"class-level helper instance {fn}"})
        for mname, m in cf.methods.items():
            for n in ast.walk(m):
                if isinstance(n, ast.Call) and isinstance(n.func, ast.Name) and n.func.id in helpers:
                    out.append({"name": f"structural::C12::helper_owner.{cf.name}.{mname}[{n.func.id}]", "ok": True, "info": helpers_per_instance.__doc__,
                                "detail": f"{cf.rel}:{n.lineno}"})
    return out


# ------------------------------------------------------------------------------------------------ C17 / C06: configuration tables
def _const_value(cf: ClassFacts, e: Optional[ast.expr]):
    """evaluate a default_value expression: constant, or class constant RuleX.__name / self.__name"""
    if e is None:
        return None
    if isinstance(e, ast.Constant):
        return e.value
    if isinstance(e, ast.UnaryOp) and isinstance(e.op, ast.USub) and isinstance(e.operand, ast.Constant):
        return -e.operand.value
    if isinstance(e, ast.Attribute):
        for n in cf.node.body:
            if isinstance(n, ast.Assign) and isinstance(n.targets[0], ast.Name) and n.targets[0].id == e.attr:
                return _const_value(cf, n.value)
            if isinstance(n, ast.AnnAssign) and isinstance(n.target, ast.Name) and n.target.id == e.attr and n.value is not None:
                return _const_value(cf, n.value)
    return ("<expr>", ast.unparse(e))


def rule_config_reads(cf: ClassFacts):
    reads = {}
    other = []
    for mname, m in cf.methods.items():
        for n in ast.walk(m):
            if isinstance(n, ast.Call) and isinstance(n.func, ast.Attribute) and isinstance(n.func.value, ast.Attribute) \
                    and n.func.value.attr == "plugin_configuration":
                mm = {"get_boolean_property": "boolean", "get_integer_property": "integer", "get_string_property": "string"}.get(n.func.attr)
                if mm is None or not n.args or not isinstance(n.args[0], ast.Constant):
                    other.append((mname, n.lineno, ast.unparse(n)[:80]))
                    continue
                dv = next((k.value for k in n.keywords if k.arg == "default_value"), n.args[1] if len(n.args) > 1 else None)
                vf = next((k.value for k in n.keywords if k.arg == "valid_value_fn"), None)
                reads[n.args[0].value] = {"type": mm, "default": _const_value(cf, dv), "validated": vf is not None, "where": f"{mname}@{n.lineno}"}
            elif isinstance(n, ast.Attribute) and n.attr == "plugin_configuration" and not isinstance(getattr(n, "ctx", None), ast.Store):
                pass
    return reads, other


def rule_details(cf: ClassFacts):
    gd = cf.methods.get("get_details")
    out = {}
    if gd is None:
        return out
    for n in ast.walk(gd):
        if isinstance(n, ast.Call) and isinstance(n.func, ast.Name) and n.func.id.startswith("PluginDetails"):
            for k in n.keywords:
                if isinstance(k.value, ast.Constant):
                    out[k.arg] = k.value.value
    return out


def _norm_default(v):
    if isinstance(v, bool):
        return str(v)
    if isinstance(v, int):
        return str(v)
    if v is None:
        return "None"
    if isinstance(v, str):
        return v
    return str(v)


def _norm_doc_default(s: str):
    s = s.strip()
    if s in ('""', "''"):
        return ""
    return s.strip('"')


@check("C17", "C06")
def rule_config_tables():
    """for every rule: the identifiers (id + names) and every configuration item (name, type, default) that the code reads are
    the ones of the rule's documentation (specs/rule_config.json), every read goes through a typed getter, and nothing
    undocumented is read"""
    spec = json.load(open(os.path.join(HERE, "..", "specs", "rule_config.json")))
    rules = spec["rules"]
    corrections = spec.get("corrections", {})
    out = []
    for cf in plugin_classes().values():
        if not is_rule(cf):
            continue
        det = rule_details(cf)
        rid = str(det.get("plugin_id", "")).lower()
        doc = rules.get(rid)
        if doc is None:
            out.append({"name": f"structural::C17::config.{cf.name}.documented", "ok": False, "info": "rule has a documentation page", "detail": f"no spec entry for {rid}"})
            continue
        names = [x.strip() for x in str(det.get("plugin_name", "")).split(",") if x.strip()]
        want_prefixes = corrections.get(f"{rid}.prefixes", {}).get("value", doc["prefixes"])
        out.append({"name": f"structural::C17::config.{cf.name}.identifiers", "ok": [rid] + names == want_prefixes,
                    "info": f"{cf.rel}: id and names equal the documented prefixes", "detail": f"code {[rid] + names} documented {want_prefixes}"})
        reads, other = rule_config_reads(cf)
        out.append({"name": f"structural::C17::config.{cf.name}.typed_getters_only", "ok": not other,
                    "info": "every configuration read goes through get_boolean/integer/string_property with a literal key", "detail": str(other)})
        items = dict(doc["items"])
        en = items.pop("enabled", None)
        en_want = corrections.get(f"{rid}.enabled", {}).get("value", en["default"] if en else None)
        out.append({"name": f"structural::C17::config.{cf.name}.enabled_default", "ok": en is not None and str(det.get("plugin_enabled_by_default")) == en_want,
                    "info": "default enabled state equals the documented one", "detail": f"code {det.get('plugin_enabled_by_default')} documented {en_want}"})
        for k in sorted(set(items) | set(reads)):
            c = corrections.get(f"{rid}.{k}")
            d = items.get(k)
            r = reads.get(k)
            if c is not None and c.get("value") is not None:
                d = c["value"]
            if c is not None and c.get("value") is None and c.get("undocumented_ok"):
                out.append({"name": f"structural::C17::config.{cf.name}.item[{k}]", "ok": True, "info": "documented exception", "detail": c.get("why", "")})
                continue
            ok = d is not None and r is not None and d["type"] == r["type"] and _norm_doc_default(d["default"]) == _norm_default(r["default"])
            out.append({"name": f"structural::C17::config.{cf.name}.item[{k}]", "ok": ok,
                        "info": f"{cf.rel}: item '{k}' has the documented type and default",
                        "detail": f"code {r} documented {d}"})
    return out
