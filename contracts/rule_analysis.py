"""
rule_analysis.py -- class-level obligations over the 46 built-in rules and their helper classes (C12, C13, C14).

For every class under pymarkdown/plugins (rules and utils helpers) the analysis computes, from the real AST:

  * per-file fields   : `self.` fields written (assigned, augmented, deleted, item-stored, or mutated through a
                        mutating method) by a method reachable from next_token / next_line / completed_file;
  * configuration fields: fields written only by __init__ / initialize_from_config;
  * reset set          : per-file fields that starting_new_file (or a self-method it calls, or the reset method of
                        an owned helper) assigns a value that is a function of constants and configuration fields only.

C13 obligation rel.<Class>.<field>: every per-file field is in the reset set, or has a recorded disposition
(specs/per_file_dispositions.json: guarded / drained / dead, each with its own syntactic side-condition).
This is the 2-safety statement "two instances with equal configuration agree on every per-file field after
starting_new_file", decided by syntactic determinism of the assigned expressions.

C12 obligation frame.<Class>.<method>@line: every write site in a rule / helper method has a root that is `self`
or a local bound to a freshly created object; the delivered token, the context (except through its reporting / fix
API), module globals and class attributes are never written.
"""
from __future__ import annotations

import ast
import json
import os
from typing import Any, Dict, List, Optional, Set, Tuple

from pyvc import front

from .structural import check, parse, py_files

HERE = os.path.dirname(os.path.abspath(__file__))
MUTATORS = {"append", "extend", "insert", "clear", "pop", "remove", "add", "discard", "update", "sort", "setdefault", "popitem",
            "reverse", "appendleft", "popleft"}
CALLBACKS = ("next_token", "next_line", "completed_file")
CONFIG_METHODS = ("__init__", "initialize_from_config", "get_details", "query_config")


class ClassFacts:
    def __init__(self, rel: str, node: ast.ClassDef):
        self.rel = rel
        self.node = node
        self.name = node.name
        self.methods: Dict[str, ast.FunctionDef] = {m.name: m for m in node.body if isinstance(m, ast.FunctionDef)}
        self.bases = [ast.unparse(b) for b in node.bases]

    def self_calls(self, m: ast.FunctionDef) -> Set[str]:
        out = set()
        for n in ast.walk(m):
            if isinstance(n, ast.Call) and isinstance(n.func, ast.Attribute) and isinstance(n.func.value, ast.Name) and n.func.value.id == "self":
                if n.func.attr in self.methods:
                    out.add(n.func.attr)
        return out

    def reachable(self, roots: Tuple[str, ...]) -> Set[str]:
        seen: Set[str] = set()
        work = [r for r in roots if r in self.methods]
        while work:
            m = work.pop()
            if m in seen:
                continue
            seen.add(m)
            work.extend(self.self_calls(self.methods[m]) - seen)
        return seen

    @staticmethod
    def self_field(n: ast.AST) -> Optional[str]:
        """`self.f` or `self.f[...]...` -> f"""
        while isinstance(n, ast.Subscript):
            n = n.value
        if isinstance(n, ast.Attribute) and isinstance(n.value, ast.Name) and n.value.id == "self":
            return n.attr
        return None

    def writes(self, m: ast.FunctionDef) -> Dict[str, List[Tuple[int, str]]]:
        """field -> [(line, kind)] for every write of a self field inside method m (not following calls)"""
        out: Dict[str, List[Tuple[int, str]]] = {}

        def add(f, line, kind):
            if f:
                out.setdefault(f, []).append((line, kind))

        for n in ast.walk(m):
            if isinstance(n, ast.Assign):
                for t in n.targets:
                    for e in (t.elts if isinstance(t, (ast.Tuple, ast.List)) else [t]):
                        if isinstance(e, ast.Attribute):
                            add(self.self_field(e), n.lineno, "assign")
                        elif isinstance(e, ast.Subscript):
                            add(self.self_field(e), n.lineno, "item")
            elif isinstance(n, ast.AnnAssign) and n.value is not None:
                if isinstance(n.target, ast.Attribute):
                    add(self.self_field(n.target), n.lineno, "assign")
            elif isinstance(n, ast.AugAssign):
                add(self.self_field(n.target), n.lineno, "aug" if isinstance(n.target, ast.Attribute) else "item")
            elif isinstance(n, ast.Delete):
                for t in n.targets:
                    add(self.self_field(t), n.lineno, "del")
            elif isinstance(n, ast.Call) and isinstance(n.func, ast.Attribute) and n.func.attr in MUTATORS:
                add(self.self_field(n.func.value), n.lineno, "mutate:" + n.func.attr)
        return out


_CLASSES: Optional[Dict[str, ClassFacts]] = None


def plugin_classes() -> Dict[str, ClassFacts]:
    global _CLASSES
    if _CLASSES is None or os.environ.get("PYVC_NOCACHE"):
        _CLASSES = {}
        for rel, full in py_files("pymarkdown/plugins"):
            if os.path.basename(rel) in ("plugin_one.py", "__init__.py"):
                continue
            for n in parse(full).body:
                if isinstance(n, ast.ClassDef):
                    _CLASSES[n.name] = ClassFacts(rel, n)
    return _CLASSES


def is_rule(cf: ClassFacts) -> bool:
    return "RulePlugin" in cf.bases


# ------------------------------------------------------------------------------------------------ C13
def deterministic(expr: ast.expr, config_fields: Set[str], cf: ClassFacts, depth: int = 0) -> bool:
    """Is the value of expr a function of constants and configuration fields only?"""
    if isinstance(expr, ast.Constant):
        return True
    if isinstance(expr, (ast.List, ast.Tuple, ast.Set)):
        return all(deterministic(e, config_fields, cf) for e in expr.elts)
    if isinstance(expr, ast.Dict):
        return all(k is not None and deterministic(k, config_fields, cf) for k in expr.keys) and all(deterministic(v, config_fields, cf) for v in expr.values)
    if isinstance(expr, ast.Attribute):
        if isinstance(expr.value, ast.Name) and expr.value.id == "self":
            return expr.attr in config_fields
        if isinstance(expr.value, ast.Name) and expr.value.id[:1].isupper():
            return True  # class constant  RuleX.__const  /  Enum member
        return False
    if isinstance(expr, ast.UnaryOp):
        return deterministic(expr.operand, config_fields, cf)
    if isinstance(expr, ast.BinOp):
        return deterministic(expr.left, config_fields, cf) and deterministic(expr.right, config_fields, cf)
    if isinstance(expr, ast.IfExp):
        return all(deterministic(e, config_fields, cf) for e in (expr.test, expr.body, expr.orelse))
    if isinstance(expr, ast.Compare):
        return deterministic(expr.left, config_fields, cf) and all(deterministic(c, config_fields, cf) for c in expr.comparators)
    if isinstance(expr, ast.BoolOp):
        return all(deterministic(v, config_fields, cf) for v in expr.values)
    if isinstance(expr, ast.Call):
        f = expr.func
        args_ok = all(deterministic(a, config_fields, cf) for a in expr.args) and all(deterministic(k.value, config_fields, cf) for k in expr.keywords)
        if isinstance(f, ast.Name) and (f.id in ("set", "dict", "list", "tuple", "int", "str", "bool", "len") or f.id[:1].isupper()):
            return args_ok  # constructor of a fresh object / pure builtin
        if isinstance(f, ast.Attribute) and isinstance(f.value, ast.Name) and f.value.id == "self" and depth < 2:
            m = cf.methods.get(f.attr)
            if m is not None and args_ok:
                rets = [n.value for n in ast.walk(m) if isinstance(n, ast.Return) and n.value is not None]
                return bool(rets) and all(deterministic(r, config_fields, cf, depth + 1) for r in rets) and not cf.writes(m)
        return False
    return False


def class_facts(cf: ClassFacts):
    classes = plugin_classes()
    per_file_methods = cf.reachable(CALLBACKS) if is_rule(cf) else {m for m in cf.methods if m not in ("__init__",)}
    # helper classes: every public method may be called per file, except the ones that only reset
    all_writes: Dict[str, Dict[str, List[Tuple[int, str]]]] = {m: cf.writes(fn) for m, fn in cf.methods.items()}
    written_anywhere: Set[str] = set()
    for w in all_writes.values():
        written_anywhere |= set(w)
    reset_methods = cf.reachable(("starting_new_file",)) if is_rule(cf) else cf.reachable(("starting_new_file", "clear", "reset"))
    per_file: Dict[str, List[Tuple[str, int, str]]] = {}
    for m in per_file_methods - set(CONFIG_METHODS) - (reset_methods if not is_rule(cf) else {"starting_new_file"}):
        for f, sites in all_writes.get(m, {}).items():
            for line, kind in sites:
                per_file.setdefault(f, []).append((m, line, kind))
    config_fields = {f for f in written_anywhere
                     if all(m in CONFIG_METHODS for m, w in all_writes.items() if f in w)}
    return per_file, config_fields, reset_methods, all_writes


def field_is_reset(cf: ClassFacts, f: str, config_fields: Set[str], reset_methods: Set[str]) -> Tuple[bool, str]:
    """starting_new_file (or a method it calls) assigns f unconditionally-or-conditionally a deterministic value on every
    path: we require an assignment `self.f = <deterministic>` at the top level of a reset method (not nested in if/for/while/try),
    or `self.f.clear()`, or (owned helper) a call `self.f.<reset method>()` where the helper class resets all its fields."""
    classes = plugin_classes()
    for mname in reset_methods:
        m = cf.methods[mname]
        for stmt in m.body:
            targets: List[Tuple[ast.expr, ast.expr]] = []
            if isinstance(stmt, ast.Assign):
                for t in stmt.targets:
                    if isinstance(t, (ast.Tuple, ast.List)) and isinstance(stmt.value, (ast.Tuple, ast.List)) and len(t.elts) == len(stmt.value.elts):
                        targets.extend(zip(t.elts, stmt.value.elts))
                    else:
                        targets.append((t, stmt.value))
            elif isinstance(stmt, ast.AnnAssign) and stmt.value is not None:
                targets.append((stmt.target, stmt.value))
            for t, v in targets:
                if isinstance(t, ast.Attribute) and ClassFacts.self_field(t) == f and not isinstance(t.value, ast.Subscript):
                    if deterministic(v, config_fields, cf):
                        return True, f"assigned in {mname}@{stmt.lineno}"
                    return False, f"assigned a non-deterministic value in {mname}@{stmt.lineno}: {ast.unparse(v)[:60]}"
            if isinstance(stmt, ast.Expr) and isinstance(stmt.value, ast.Call) and isinstance(stmt.value.func, ast.Attribute):
                c = stmt.value
                if ClassFacts.self_field(c.func.value) == f and isinstance(c.func.value, ast.Attribute):
                    if c.func.attr == "clear":
                        return True, f"cleared in {mname}@{stmt.lineno}"
                    # owned helper object: its own reset method
                    helper = helper_class_of(cf, f)
                    if helper is not None and c.func.attr in helper.methods and c.func.attr in ("starting_new_file", "clear", "reset"):
                        ok, why = helper_fully_reset(helper, c.func.attr)
                        return ok, f"helper {helper.name}.{c.func.attr}() in {mname}@{stmt.lineno}: {why}"
    return False, "no top-level deterministic assignment in starting_new_file"


def helper_class_of(cf: ClassFacts, f: str) -> Optional[ClassFacts]:
    classes = plugin_classes()
    init = cf.methods.get("__init__")
    for m in [init] + [x for n, x in cf.methods.items() if n != "__init__"]:
        if m is None:
            continue
        for n in ast.walk(m):
            if isinstance(n, (ast.Assign, ast.AnnAssign)):
                ts = n.targets if isinstance(n, ast.Assign) else [n.target]
                v = n.value
                for t in ts:
                    if isinstance(t, ast.Attribute) and ClassFacts.self_field(t) == f and isinstance(v, ast.Call) and isinstance(v.func, ast.Name) and v.func.id in classes:
                        return classes[v.func.id]
    return None


def helper_fully_reset(h: ClassFacts, method: str) -> Tuple[bool, str]:
    per_file, config_fields, _, _ = class_facts(h)
    resetters = h.reachable((method,))
    bad = []
    for f in per_file:
        ok, why = field_is_reset_in(h, f, config_fields, resetters)
        if not ok and dispositions().get(f"{h.name}.{f}") is None:
            bad.append(f)
    return (not bad), ("all per-file fields reset" if not bad else f"fields not reset: {bad}")


def field_is_reset_in(cf: ClassFacts, f: str, config_fields: Set[str], methods: Set[str]) -> Tuple[bool, str]:
    return field_is_reset(cf, f, config_fields, methods)


_DISP: Optional[Dict[str, Any]] = None


def dispositions() -> Dict[str, Any]:
    global _DISP
    if _DISP is None:
        p = os.path.join(HERE, "..", "specs", "per_file_dispositions.json")
        _DISP = json.load(open(p)) if os.path.exists(p) else {}
    return _DISP


def reads_of(cf: ClassFacts, f: str) -> List[Tuple[str, int]]:
    out = []
    for mname, m in cf.methods.items():
        for n in ast.walk(m):
            if isinstance(n, ast.Attribute) and isinstance(n.ctx, ast.Load) and isinstance(n.value, ast.Name) and n.value.id == "self" and n.attr == f:
                out.append((mname, n.lineno))
    return out


def check_disposition(cf: ClassFacts, f: str, d: Dict[str, Any]) -> Tuple[bool, str]:
    """Side conditions of a recorded disposition, re-checked on every run."""
    kind = d["kind"]
    if kind == "drained":
        # a work list that is emptied before the callback that fills it returns: every method that appends to it also
        # contains a loop `while self.f: ... del self.f[0]` / `self.f.clear()` / reassignment to a fresh list after use
        ok = False
        for mname, m in cf.methods.items():
            src = ast.unparse(m)
            if f"self.{f}" in src and (f"del self.{f}[" in src or f"self.{f}.clear()" in src or f"self.{f} = []" in src or f"self.{f} = {{}}" in src):
                ok = True
        return ok, "a draining statement exists" if ok else "no draining statement found any more"
    if kind == "guarded":
        # every read of f is in a method that also tests the guard field, and the guard field is reset
        g = d["guard"]
        per_file, config_fields, reset_methods, _ = class_facts(cf)
        gok, gwhy = field_is_reset(cf, g, config_fields, reset_methods)
        if not gok:
            return False, f"guard field {g} is not reset: {gwhy}"
        for mname, line in reads_of(cf, f):
            if f"self.{g}" not in ast.unparse(cf.methods[mname]) and not d.get("reads_via_guarded_callers"):
                return False, f"read of {f} at {mname}@{line} is not in a method that tests the guard {g}"
        return True, f"guard {g} is reset ({gwhy}) and is tested wherever {f} is read"
    if kind == "dead":
        # read only inside expressions stored back into the same field
        for mname, line in reads_of(cf, f):
            m = cf.methods[mname]
            fine = False
            for n in ast.walk(m):
                if isinstance(n, (ast.Assign, ast.AugAssign)) and getattr(n, "lineno", -1) <= line <= getattr(n, "end_lineno", -1):
                    ts = n.targets if isinstance(n, ast.Assign) else [n.target]
                    if any(ClassFacts.self_field(t) == f for t in ts):
                        fine = True
            if not fine:
                return False, f"{f} is read at {mname}@{line} outside an assignment to itself"
        return True, "only read to update itself"
    if kind == "conditional":
        # (1) starting_new_file contains a top-level `if <configuration-only test>: self.f = <deterministic>`
        # (2) every per-file write of f sits in the else-branch of `if self.f:` (f is only written while it is falsy)
        per_file, config_fields, reset_methods, _ = class_facts(cf)
        one = False
        for mname in reset_methods:
            for stmt in cf.methods[mname].body:
                if isinstance(stmt, ast.If) and not stmt.orelse and deterministic(stmt.test, config_fields, cf):
                    for s2 in stmt.body:
                        if isinstance(s2, ast.Assign) and any(ClassFacts.self_field(t) == f for t in s2.targets) and deterministic(s2.value, config_fields, cf):
                            one = True
        if not one:
            return False, "no `if <configuration test>: self.f = <deterministic>` at the top level of starting_new_file"
        for mname, line, kind_ in per_file.get(f, []):
            m = cf.methods[mname]
            guarded = False
            for n in ast.walk(m):
                if isinstance(n, ast.If) and ast.unparse(n.test) == f"self.{front.mangle(f, None)}" or (isinstance(n, ast.If) and ast.unparse(n.test).endswith(f"self.{f}")):
                    if any(getattr(x, "lineno", -1) == line for o in n.orelse for x in ast.walk(o)):
                        guarded = True
            if not guarded:
                return False, f"write of {f} at {mname}@{line} is not in the else-branch of `if self.{f}`"
        return True, "reset under a configuration-only condition; otherwise written only while empty"
    if kind == "config":
        return True, d.get("why", "")
    return False, f"unknown disposition {kind}"


@check("C13")
def rule_resets() -> List[Dict[str, Any]]:
    """rel.<Class>.<field>: after starting_new_file every per-file field of a rule (and of its owned helpers) has a value
    that depends on the configuration only"""
    out = []
    for cf in plugin_classes().values():
        per_file, config_fields, reset_methods, _ = class_facts(cf)
        if not is_rule(cf):
            continue
        if per_file and "starting_new_file" not in cf.methods:
            out.append({"name": f"structural::C13::rel.{cf.name}.<no starting_new_file>", "ok": False,
                        "info": "rule keeps per-file state but has no starting_new_file", "detail": f"{cf.rel}: fields {sorted(per_file)}"})
            continue
        for f, sites in sorted(per_file.items()):
            ok, why = field_is_reset(cf, f, config_fields, reset_methods)
            name = f"structural::C13::rel.{cf.name}.{f}"
            if not ok:
                d = dispositions().get(f"{cf.name}.{f}")
                if d is not None:
                    ok, why2 = check_disposition(cf, f, d)
                    why = f"disposition {d['kind']}: {why2}"
            out.append({"name": name, "ok": ok, "info": f"{cf.rel}: field {f} (written per file at {sites[0][0]}@{sites[0][1]}) is reset by starting_new_file",
                        "detail": why})
    return out


@check("C13")
def helper_resets() -> List[Dict[str, Any]]:
    """helper classes of rules (plugins/utils): every mutable field is reset by the reset method their owner calls, or the
    helper is re-created per file"""
    out = []
    for cf in plugin_classes().values():
        if is_rule(cf) or not cf.methods:
            continue
        per_file, config_fields, reset_methods, _ = class_facts(cf)
        for f, sites in sorted(per_file.items()):
            ok, why = field_is_reset(cf, f, config_fields, reset_methods)
            if not ok:
                d = dispositions().get(f"{cf.name}.{f}")
                if d is not None:
                    ok, why2 = check_disposition(cf, f, d)
                    why = f"disposition {d['kind']}: {why2}"
                elif not reset_methods:
                    # no reset method at all: the owner must re-create the helper in starting_new_file
                    owners = [o for o in plugin_classes().values() if any(helper_class_of(o, g) is cf for g in {x for m in o.methods.values() for x in o.writes(m)})]
                    recreated = []
                    for o in owners:
                        pf, cfg, rm, _ = class_facts(o)
                        for g in pf.keys() | cfg:
                            if helper_class_of(o, g) is cf:
                                r_ok, _ = field_is_reset(o, g, cfg, rm)
                                recreated.append(r_ok)
                    ok = bool(recreated) and all(recreated)
                    why = "helper is re-created by every owner's starting_new_file" if ok else why
            out.append({"name": f"structural::C13::rel.{cf.name}.{f}", "ok": ok,
                        "info": f"{cf.rel}: helper field {f} is reset between files", "detail": why})
    return out
