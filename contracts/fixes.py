"""C08 -- what a fix may touch: the replacement splice, the line shift, the fix vocabulary (structural part in structural.py)."""
import z3

from pyvc.spec import Assumed, Contract, Loop, Raises, register, spec_fn
from pyvc.spec import REGISTRY as _R
from pyvc.sym import V, vbool

FSH = "pymarkdown/file_scan_helper.py::FileScanHelper."
MT = "pymarkdown/tokens/markdown_token.py::MarkdownToken."
P = ["C08"]

_R["$fields"].types.update({
    "ReplaceTokensRecord.start_token": "MarkdownToken", "ReplaceTokensRecord.end_token": "MarkdownToken",
    "ReplaceTokensRecord.replacement_tokens": "List[MarkdownToken]", "ReplaceTokensRecord.plugin_id": "str",
    "PragmaToken._PragmaToken__pragma_lines": "Dict[int, str]",
})

# A token's line number moves by exactly the requested amount (a token without a position keeps 0), only in the token pass of
# fix mode, and nothing else about the token changes.
register(Contract(
    key=MT + "adjust_line_number", properties=P,
    ensures=["self.line_number == (old(self.line_number) + adjust_delta if old(self.line_number) != 0 else 0)"],
    raises=[Raises("BadPluginFixError", when="not context.in_fix_mode or context.is_during_line_pass")],
    modifies=["self.__line_number"],
))

A = "actual_tokens"
R = "next_replacement.replacement_tokens"
S = "g_idx[0]"     # index of the first replaced token, E: of the last one (recorded at the two .index() calls)
E = "g_idx[1]"
ADJ = Assumed(MT + "adjust_line_number[traced]", params=["context", "adjust_delta"], modifies=["self._MarkdownToken__line_number"],
              raises=[Raises("BadPluginFixError")], effects=["g_adj.append((self, adjust_delta))"],
              why="MarkdownToken.adjust_line_number (own contract above); ghost g_adj records (token, delta) per call")
INDEX = Assumed("list.index[traced]", params=["x"], returns="int", pure=True, raises=[Raises("ValueError")],
                ensures=["0 <= result < len(self)", "self[result] is x", "forall(lambda k: self[k] is not x, 0, result)"],
                effects=["g_idx.append(result)"],
                why="list.index for tokens (MarkdownToken defines no __eq__: identity): the first position of x, ValueError if absent")
NEW_LINES = f"old({R}[len({R}) - 1].line_number - {R}[0].line_number + 1)"
FIRST_REAL = (f"({S} <= a <= {E} and (a == {E} or not old({A}[a].is_end_token)) and forall(lambda q: old({A}[q].is_end_token), {S}, a))")

PTK = f"{A}[len({A}) - 1]"                                  # the trailing pragma token (post-state)
PD = f"{PTK}._PragmaToken__pragma_lines"
E0 = "next_replacement.end_token.line_number"
DLT = "g_adj[0][1]"


def _old_in(tok, x):
    return f"old({x} in now({tok})._PragmaToken__pragma_lines)"


def _old_at(tok, x):
    return f"old(now({tok})._PragmaToken__pragma_lines[{x}])"


def _nk(x, dlt):
    """where a pragma kept under key x goes: its line (|x|, negative keys mark the alternate prefix) moves by dlt, the sign stays"""
    return f"(({x}) + ({dlt}) if ({x}) > 0 else ({x}) - ({dlt}))"


def _nocoll(tok, dlt):
    # a moved pragma never lands on a pragma that stays (one inside the replaced range)
    nk_now = _nk("y", "now(" + dlt + ")")
    # ... and the shift never moves a line to or above line 0 (the replaced range ends at E0 and shrinks by at most its own size)
    return (f"({E0} + {dlt} >= 0 and forall(lambda y: implies({_old_in(tok, 'y')} and abs(y) > {E0}, "
            f"not ({_old_in(tok, nk_now)} and abs({_nk('y', dlt)}) <= {E0}))))")


LD = "pragma_token._PragmaToken__pragma_lines"
register(Contract(
    key=FSH + "__apply_replacement_fix", properties=P + ["C11"],
    ghost={"g_adj": "List[Any]", "g_idx": "List[int]"},
    calls={"next_token.adjust_line_number": ADJ, "actual_tokens.index": INDEX},
    requires=[f"len({R}) >= 1", f"{R} is not {A}", "len(g_adj) == 0", "len(g_idx) == 0"],
    ensures=[
        "len(g_idx) == 2",
        f"0 <= {S} < old(len({A})) and 0 <= {E} < old(len({A}))",
        f"old({A}[now({S})]) is next_replacement.start_token and old({A}[now({E})]) is next_replacement.end_token",
        # the splice: everything before the range and everything after it is kept, in order, exactly once; the range is
        # replaced by the replacement tokens -- no token outside the replaced range is dropped, duplicated or moved
        f"implies({S} <= {E}, len({A}) == {S} + len({R}) + (old(len({A})) - {E} - 1))",
        f"forall(lambda k: {A}[k] is old({A}[k]), 0, {S})",
        f"forall(lambda k: {A}[{S} + k] is {R}[k], 0, len({R}))",
        f"forall(lambda k: {A}[{S} + len({R}) + (k - {E} - 1)] is old({A}[k]), {E} + 1, old(len({A})))",
        # the line shift: every token after the range -- and no other -- is moved once, by (lines of the replacement) - (lines replaced),
        # the lines replaced being counted from the first token of the range that is not an end token
        f"len(g_adj) == old(len({A})) - {E} - 1",
        f"forall(lambda k: g_adj[k][0] is old({A}[now({E}) + 1 + k]), 0, len(g_adj))",
        f"forall(lambda a: implies({FIRST_REAL}, forall(lambda k: g_adj[k][1] == {NEW_LINES} - "
        f"(old(next_replacement.end_token.line_number) - old({A}[a].line_number) + 1), 0, len(g_adj))), 0, old(len({A})))",
        # pragma lines (kept in the trailing pragma token under their line number, negated for the alternate prefix): every pragma
        # below the replaced range moves by the same amount and keeps its text and prefix kind, every pragma at or above it stays --
        # none is lost or overwritten
        f"implies({PTK}.is_pragma and len(g_adj) >= 1 and {_nocoll(PTK, DLT)}, "
        f"forall(lambda x: implies({_old_in(PTK, 'x')} and abs(x) > {E0}, {_nk('x', DLT)} in {PD} and {PD}[{_nk('x', DLT)}] is {_old_at(PTK, 'x')})))",
        f"implies({PTK}.is_pragma and len(g_adj) >= 1 and {_nocoll(PTK, DLT)}, "
        f"forall(lambda x: implies({_old_in(PTK, 'x')} and abs(x) <= {E0}, x in {PD} and {PD}[x] is {_old_at(PTK, 'x')})))",
    ],
    raises=[Raises("ValueError"), Raises("BadPluginFixError"), Raises("IndexError"), Raises("KeyError")],
    modifies=[f"{A}.$list", "_MarkdownToken__line_number", "g_adj.$list", "g_idx.$list", "_PragmaToken__pragma_lines", "$ddom", "$dval", "$dlen",
              "_MarkdownToken__extra_data"],
    loops={0: Loop(invariant=["start_index <= actual_start_index", "actual_start_index <= end_index or actual_start_index == start_index",
                              f"forall(lambda q: {A}[q].is_end_token, start_index, actual_start_index)"],
                   variant="end_index - actual_start_index"),
           1: Loop(index="idx", invariant=[
               "len(g_adj) == idx", "forall(lambda k: g_adj[k][0] is end_tokens[k] and g_adj[k][1] == line_number_delta, 0, idx)"]),
           2: Loop(index="idx", seq_name="pk", invariant=[
               # not yet moved: still where they were; already moved: at their new line; staying: untouched
               f"implies({E0} + line_number_delta >= 0, "
               f"forall(lambda j: implies(abs(pk[j]) > {E0}, pk[j] in {LD} and {LD}[pk[j]] is {_old_at('pragma_token', 'now(pk[j])')}), idx, len(pk)))",
               f"implies({E0} + line_number_delta >= 0, "
               f"forall(lambda j: implies(abs(pk[j]) > {E0}, {_nk('pk[j]', 'line_number_delta')} in {LD} and "
               f"{LD}[{_nk('pk[j]', 'line_number_delta')}] is {_old_at('pragma_token', 'now(pk[j])')}), 0, idx))",
               f"implies({_nocoll('pragma_token', 'line_number_delta')}, "
               f"forall(lambda x: implies({_old_in('pragma_token', 'x')} and abs(x) <= {E0}, x in {LD} and {LD}[x] is {_old_at('pragma_token', 'x')})))",
               "implies(len(g_adj) >= 1, g_adj[0][1] == line_number_delta)",
           ])},
))

# ---------------------------------------------------------------------------------------------------------------
# Pragma lines: moving one pragma keeps every other pragma where it is, with its text.
PT = "pymarkdown/extensions/pragma_token.py::PragmaToken."
PL = "self.__pragma_lines"
COMPOSE_PT = Assumed(PT + "__compose_extra_data_field", pure=True, modifies=["self._MarkdownToken__extra_data"],
                     why="serialises the pragma map into the token's extra_data string (presentation only)")
register(Contract(
    key=PT + "adjust_pragma_line_number", properties=["C08", "C11"],
    calls={"self.__compose_extra_data_field": COMPOSE_PT},
    ensures=[f"new_line_number in {PL} and {PL}[new_line_number] is old({PL}[initial_line_number])",
             f"implies(initial_line_number != new_line_number, initial_line_number not in {PL})",
             f"forall_val(lambda x: implies(x != new_line_number and x != initial_line_number, "
             f"((x in {PL}) == old(x in {PL})) and implies(x in {PL}, {PL}[x] is old({PL}[x]))))"],
    raises=[Raises("KeyError", when=f"initial_line_number not in {PL}")],
    modifies=[f"{PL}.$dict", "self._MarkdownToken__extra_data"],
))

# ---------------------------------------------------------------------------------------------------------------
# Conflicting requests are refused, never silently resolved: a replacement whose token range touches a token that another rule
# edits or replaces raises BadPluginFixError; otherwise exactly the range is marked as replaced by this rule.
_R["$fields"].types.update({"FixTokenRecord.token_to_fix": "MarkdownToken", "FixTokenRecord.plugin_id": "str", "FixTokenRecord.plugin_action": "str",
                            "FixTokenRecord.field_name": "str", "FixTokenRecord.field_value": "Any"})
FI = "fixed_token_indices"
RI = "replaced_token_indices"
INDEX2 = Assumed("list.index[traced]", params=["x"], returns="int", pure=True, raises=[Raises("ValueError")],
                 ensures=["0 <= result < len(self)", "self[result] is x", "forall(lambda k: self[k] is not x, 0, result)"],
                 effects=["g_idx.append(result)"], why=INDEX.why)
CLASH = f"exists(lambda i: old(i in {FI}) or old(i in {RI}), g_idx[0], g_idx[1] + 1)"
register(Contract(
    key=FSH + "__look_for_collisions", properties=P,
    ghost={"g_idx": "List[int]"},
    calls={"actual_tokens.index": INDEX2},
    types={"fixed_token_indices": "Dict[int, List[str]]", "replaced_token_indices": "Dict[int, str]"},
    requires=["len(g_idx) == 0", f"{FI} is not {RI}"],
    ensures=[
        "len(g_idx) == 2",
        # returning normally means: nothing in the range was edited or replaced before ...
        f"forall(lambda i: not old(i in {FI}) and not old(i in {RI}), g_idx[0], g_idx[1] + 1)",
        # ... and now exactly the range is recorded as replaced by this rule
        f"forall(lambda i: i in {RI} and {RI}[i] is next_replacement.plugin_id, g_idx[0], g_idx[1] + 1)",
        f"forall(lambda i: implies(i < g_idx[0] or i > g_idx[1], (i in {RI}) == old(i in {RI})))",
    ],
    raises=[Raises("BadPluginFixError"), Raises("ValueError")],
    xensures={"BadPluginFixError": [f"len(g_idx) == 2 and {CLASH}"]},       # a refusal always has a cause: some index of the range is taken
    modifies=[f"{RI}.$dict", "g_idx.$list"],
    loops={0: Loop(index="idx", invariant=[
        f"forall(lambda i: not old(i in {FI}), start_index, end_index + 1)",
        f"forall(lambda i: not old(i in {RI}) and i in {RI} and {RI}[i] is next_replacement.plugin_id, start_index, start_index + idx)",
        f"forall(lambda i: implies(i < start_index or i >= start_index + idx, (i in {RI}) == old(i in {RI})))",
        "len(g_idx) == 2 and g_idx[0] == start_index and g_idx[1] == end_index",
    ])},
))

# Every requested edit of a token is applied exactly once, in the order requested, through MarkdownToken.modify_token; an edit the
# token refuses (unknown field, ill-typed value: see the _modify_token obligations) aborts the fix with BadPluginFixError -- no
# request is dropped silently.
MODTOK = Assumed(MT + "modify_token[traced]", params=["context", "field_name", "field_value"], returns="bool", modifies=["$token_state"],
                 raises=[Raises("BadPluginFixError")], effects=["g_mod.append((self, field_name, field_value, result))"],
                 why="MarkdownToken.modify_token -> _modify_token (structural obligations C08::modify_token[...]); ghost g_mod records the call and its verdict")
DEEPCOPY = Assumed("copy.deepcopy", params=["x"], returns="Any", pure=True, fresh_result=True, why="debug copy of the token (only printed)")
RQ = "requested_fixes"
register(Contract(
    key=FSH + "__apply_token_fix", properties=P,
    ghost={"g_mod": "List[Any]"},
    calls={"token_instance.modify_token": MODTOK, "copy.deepcopy": DEEPCOPY},
    requires=["len(g_mod) == 0"],
    ensures=[f"len(g_mod) == len({RQ})",
             f"forall(lambda k: g_mod[k][0] is token_instance and g_mod[k][1] is {RQ}[k].field_name and g_mod[k][2] is {RQ}[k].field_value and g_mod[k][3], 0, len({RQ}))"],
    raises=[Raises("BadPluginFixError")],
    modifies=["$token_state", "g_mod.$list"],
    loops={0: Loop(index="idx", invariant=["len(g_mod) == 0", "fix_map is not requested_fixes"]),
           1: Loop(index="idx", invariant=["len(g_mod) == idx",
                                           f"forall(lambda k: g_mod[k][0] is token_instance and g_mod[k][1] is {RQ}[k].field_name and g_mod[k][2] is {RQ}[k].field_value and g_mod[k][3], 0, idx)"])},
))

# All replacements are checked for conflicts BEFORE the first one is applied (a conflict leaves the token list untouched), then every
# one is applied exactly once, in the order requested.
RL = "replace_tokens_list"
LFC = Assumed(FSH + "__look_for_collisions[traced]", params=["next_replacement", "actual_tokens", "fixed_token_indices", "replaced_token_indices"],
              modifies=["replaced_token_indices.$dict"], raises=[Raises("BadPluginFixError"), Raises("ValueError")],
              effects=["g_steps.append(('check', next_replacement))"], why="FileScanHelper.__look_for_collisions (own contract above)")
ARF = Assumed(FSH + "__apply_replacement_fix[traced]", params=["context", "next_replacement", "actual_tokens"],
              modifies=["actual_tokens.$list", "_MarkdownToken__line_number", "$ddom", "$dval", "$dlen", "_MarkdownToken__extra_data"],
              raises=[Raises("ValueError"), Raises("BadPluginFixError"), Raises("IndexError"), Raises("KeyError")],
              effects=["g_steps.append(('apply', next_replacement))"], why="FileScanHelper.__apply_replacement_fix (own contract above)")
MKV = Assumed("ParserHelper.make_value_visible", returns="str", pure=True, why="debug rendering (only under -x-fix-debug)")
N = f"len({RL})"
register(Contract(
    key=FSH + "__apply_replacements", properties=P,
    ghost={"g_steps": "List[Any]"},
    calls={"self.__look_for_collisions": LFC, "self.__apply_replacement_fix": ARF, "ParserHelper.make_value_visible": MKV},
    requires=["len(g_steps) == 0", f"{RL} is not actual_tokens"],
    ensures=[f"result == (did_any_tokens_get_fixed or {N} > 0)",
             f"len(g_steps) == 2 * {N}",
             f"forall(lambda k: g_steps[k] == ('check', {RL}[k]), 0, {N})",
             f"forall(lambda k: g_steps[k] == ('apply', {RL}[k - {N}]), {N}, 2 * {N})"],
    # a conflict is found before anything was applied
    xensures={"BadPluginFixError": [f"forall(lambda k: implies(g_steps[k][0] == 'apply', k >= {N}), 0, len(g_steps))"]},
    raises=[Raises("BadPluginFixError"), Raises("ValueError"), Raises("IndexError"), Raises("KeyError")],
    modifies=["actual_tokens.$list", "replaced_token_indices.$dict", "_MarkdownToken__line_number", "$ddom", "$dval", "$dlen", "$llen", "$litems",
              "_MarkdownToken__extra_data", "g_steps.$list"],
    loops={0: Loop(index="idx", invariant=["len(g_steps) == idx", f"forall(lambda k: g_steps[k] == ('check', {RL}[k]), 0, idx)",
                                           f"len({RL}) == old(len({RL}))", f"forall(lambda k: {RL}[k] is old({RL}[k]), 0, {N})"]),
           1: Loop(invariant=[f"len(g_steps) == {N}", f"forall(lambda k: g_steps[k] == ('check', {RL}[k]), 0, {N})"]),
           2: Loop(index="idx", invariant=[f"len(g_steps) == {N} + idx", f"forall(lambda k: g_steps[k] == ('check', {RL}[k]), 0, {N})",
                                           f"forall(lambda k: g_steps[k] == ('apply', {RL}[k - {N}]), {N}, {N} + idx)",
                                           f"did_any_tokens_get_fixed == (old(did_any_tokens_get_fixed) or idx > 0)",
                                           f"len({RL}) == old(len({RL}))", f"forall(lambda k: {RL}[k] is old({RL}[k]), 0, {N})"]),
           3: Loop(invariant=[f"len(g_steps) == 2 * {N}"])},
))

# A fix request is queued exactly once, behind the requests already queued for that token, and nothing else in the map changes
# (no request is dropped or overwritten; with no map -- scan mode -- nothing is queued).
PSCK = "pymarkdown/plugin_manager/plugin_scan_context.py::PluginScanContext."
FM = "self.__fix_token_map"
_R["$fields"].types.update({"PluginScanContext._PluginScanContext__fix_token_map": "Optional[Dict[MarkdownToken, List[FixTokenRecord]]]"})
register(Contract(
    key=PSCK + "register_fix_token_request", properties=P,
    ensures=[
        f"implies(old({FM}) is None, {FM} is None)",
        f"implies(old({FM}) is not None, {FM} is old({FM}) and token in {FM})",
        f"implies(old({FM}) is not None and old(token in {FM}), {FM}[token] is old({FM}[token]) and len({FM}[token]) == old(len({FM}[token])) + 1 and "
        f"forall(lambda k: {FM}[token][k] is old({FM}[token][k]), 0, old(len({FM}[token]))))",
        f"implies(old({FM}) is not None and not old(token in {FM}), is_fresh({FM}[token]) and len({FM}[token]) == 1)",
        f"implies(old({FM}) is not None, is_fresh({FM}[token][len({FM}[token]) - 1]) and {FM}[token][len({FM}[token]) - 1].token_to_fix is token and "
        f"{FM}[token][len({FM}[token]) - 1].plugin_id is plugin_id and {FM}[token][len({FM}[token]) - 1].field_name is field_name and "
        f"{FM}[token][len({FM}[token]) - 1].field_value is field_value)",
        f"implies(old({FM}) is not None, forall_val(lambda x: implies(x is not token, (x in {FM}) == old(x in {FM}) and implies(x in {FM}, {FM}[x] is old({FM}[x])))))",
    ],
    raises=[],
    modifies=[f"{FM}.$dict", "$llen", "$litems"],
))

RTL = "self.__replace_token_list"
_R["$fields"].types.update({"PluginScanContext._PluginScanContext__replace_token_list": "Optional[List[ReplaceTokensRecord]]"})
register(Contract(
    key=PSCK + "register_replace_tokens_request", properties=P,
    ensures=[f"{RTL} is old({RTL}) and len({RTL}) == old(len({RTL})) + 1", f"forall(lambda k: {RTL}[k] is old({RTL}[k]), 0, old(len({RTL})))",
             f"is_fresh({RTL}[len({RTL}) - 1]) and {RTL}[len({RTL}) - 1].plugin_id is plugin_id and {RTL}[len({RTL}) - 1].start_token is start_token and "
             f"{RTL}[len({RTL}) - 1].end_token is end_token and {RTL}[len({RTL}) - 1].replacement_tokens is replacement_tokens"],
    raises=[Raises("AssertionError", when=f"{RTL} is None")],
    modifies=[f"{RTL}.$list"],
))
