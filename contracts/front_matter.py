"""C20 -- the front-matter header: what the extension consumes from the source provider is either turned into ONE token at (1,1)
that accounts for every consumed line, or handed back to the parser line for line, in order, nothing lost and nothing altered."""
from pyvc.spec import Assumed, Contract, Loop, Raises, register
from pyvc.spec import REGISTRY as _R

FME = "pymarkdown/extensions/front_matter_extension.py::FrontMatterExtension."
P = ["C20"]

NEXT = Assumed("SourceProvider.get_next_line[traced]", params=[], returns="Optional[str]", modifies=["$provider_state"],
               effects=["g_read.append(result)"],
               why="the document's next line, None at the end (FileSourceProvider / InMemorySourceProvider are under contract in "
                   "contracts/providers.py); ghost g_read records every line handed out")
IS_BREAK = Assumed("ThematicLeafBlockProcessor.is_thematic_break", returns="Tuple[Optional[str], int]", pure=True,
                   why="parser leaf-block recogniser: (start character or None, index); only its truthiness is used here")
YAML = Assumed(FME + "__validate_yaml", params=["collected_lines"], returns="Any", pure=True,
               why="yaml.load of the collected lines: a mapping, or None / a message when the block is not a YAML mapping")
COMPOSE = Assumed("FrontMatterMarkdownToken.__compose_extra_data_field", pure=True, modifies=["self._MarkdownToken__extra_data"],
                  why="serialises the token's fields into extra_data (presentation only)")
_R["$fields"].types.update({"FrontMatterExtension._FrontMatterExtension__allow_blank_lines": "bool"})

BASE = "old(len(g_read))"
NREAD = f"(len(g_read) - {BASE})"
R = "result[3]"
register(Contract(
    key=FME + "__handle_document_front_matter", properties=P + ["C05"],
    ghost={"g_read": "List[Any]"},
    calls={"source_provider.get_next_line": NEXT, "ThematicLeafBlockProcessor.is_thematic_break": IS_BREAK,
           "FrontMatterExtension.__validate_yaml": YAML, "self.__compose_extra_data_field": COMPOSE},
    ensures=[
        f"forall(lambda j: g_read[j] == old(g_read[j]), 0, {BASE})", f"{NREAD} >= 1",
        # --- abandoned (no closing fence before the end / a blank line, or not YAML): every line taken from the provider is handed
        # back, in order and unchanged, after the opening line; the caller continues at line 1
        f"implies(result[1] is None, result[0] is None and result[2] == 1 and {R} is not None and {R}[0] is token_to_use)",
        f"implies(result[1] is None, len({R}) == 1 + {NREAD} - (1 if g_read[len(g_read) - 1] is None else 0))",
        f"implies(result[1] is None, forall(lambda k: {R}[k] is g_read[now({BASE}) + k - 1] and {R}[k] is not None, 1, len({R})))",
        # --- accepted: one token at line 1, column 1; the line reported to the caller is the number of the first line after the
        # block (opening + collected + closing consumed, one more line read ahead and returned)
        f"implies(result[1] is not None, {R} is None and result[1].line_number == 1 and result[1].column_number == 1)",
        f"implies(result[1] is not None, {NREAD} >= 2 and result[0] is g_read[len(g_read) - 1] and result[2] == {NREAD} + 1)",
        f"implies(result[1] is not None, len(result[1].collected_lines) == {NREAD} - 2 and "
        f"forall(lambda k: result[1].collected_lines[k] is g_read[now({BASE}) + k], 0, {NREAD} - 2))",
        f"implies(result[1] is not None, result[1].start_boundary_line is token_to_use and result[1].end_boundary_line is g_read[len(g_read) - 2])",
    ],
    raises=[Raises("AssertionError")],
    modifies=["$provider_state", "g_read.$list"],
    loops={0: Loop(invariant=[
        f"forall(lambda j: g_read[j] == old(g_read[j]), 0, {BASE})", f"len(g_read) >= {BASE}",
        f"forall(lambda k: collected_lines[k] is g_read[{BASE} + k] and collected_lines[k] is not None, 0, len(collected_lines))",
        f"implies(repeat_again, {NREAD} == len(collected_lines) and not have_closing)",
        f"implies({NREAD} >= 1, next_line is g_read[len(g_read) - 1])", f"implies({NREAD} == 0, next_line is None)",
        f"implies(not repeat_again, {NREAD} >= 1)",
        f"implies(not repeat_again and (next_line is None or have_closing), {NREAD} == len(collected_lines) + 1)",
        f"implies(not repeat_again and next_line is not None and not have_closing, {NREAD} == len(collected_lines))",
        "implies(have_closing, next_line is not None)",
        "collected_lines is not g_read",
    ])},
))
