"""
Assumed contracts: things outside the verified text (builtins, OS, third-party, and in-repo code that is
out of reach).  NOT proved.  Every one that a proof actually uses is listed in the evidence file.
"""
from pyvc.spec import Assumed, Contract, Raises, register

# field types that cannot be inferred from the class source
register(Contract(key="$fields", types={
    "ReturnCodeHelper._ReturnCodeHelper__helper_name": "ThreadLocal",
    "ThreadLocal.value": "Optional[str]",
}))

# argparse.Namespace attributes (dest names and their types as declared by the add_argument calls)
register(Contract(key="$namespace", types={
    "primary_subparser": "Optional[str]",
    "continue_on_error": "bool",
    "return_code_scheme": "Optional[str]",
    "show_stack_trace": "bool",
    "x_fix_debug": "bool", "x_fix_file_debug": "bool", "x_fix_no_rescan_log": "bool", "x_test_stdin_fault": "bool",
    "enable_rules": "str", "disable_rules": "str",
}))

register(Assumed("sys.exit", params=["code"], raises=[Raises("SystemExit", code="code")],
                 ensures=["False"], why="sys.exit(c) raises SystemExit(c) and never returns"))
register(Assumed("traceback.format_exc", returns="str", pure=True, why="formats the current traceback; no state"))
register(Assumed("pymarkdown/general/main_presentation.py::MainPresentation.print_system_error", pure=True,
                 why="prints to stderr; console output is not part of the modelled state"))
register(Assumed("pymarkdown/general/main_presentation.py::MainPresentation.print_system_output", pure=True,
                 why="prints to stdout; console output is not part of the modelled state"))

register(Contract(key="$fields2", types={}))
from pyvc.spec import REGISTRY as _R
_R["$fields"].types.update({
    "PluginManager.number_of_scan_failures": "int",
    "PluginManager.number_of_pragma_failures": "int",
    "PyMarkdownLint._PyMarkdownLint__presentation": "MainPresentation",
    "PyMarkdownLint._PyMarkdownLint__logging": "Optional[ApplicationLogging]",
    "PyMarkdownLint._PyMarkdownLint__show_stack_trace": "bool",
})

register(Assumed("pymarkdown/general/main_presentation.py::MainPresentation.format_scan_error", pure=True, returns="Optional[str]",
                 why="string formatting only (one loop over __cause__); result content is not part of any obligation"))
register(Assumed("pymarkdown/general/main_presentation.py::MainPresentation.print_fix_message", pure=True,
                 effects=["g_announced.add(file_fixed)"],
                 why="prints 'Fixed: <file>' to stdout; ghost g_announced records the announcement"))
_R["$fields"].types.update({
    "FileScanHelper._FileScanHelper__continue_on_error": "bool",
    "FileScanHelper._FileScanHelper__show_stack_trace": "bool",
    "FileScanHelper._FileScanHelper__presentation": "MainPresentation",
    "FileScanHelper._FileScanHelper__plugins": "PluginManager",
    "FileScanHelper._FileScanHelper__tokenizer": "TokenizedMarkdown",
})

PM = "pymarkdown/plugin_manager/plugin_manager.py::PluginManager."
PSC = "pymarkdown/plugin_manager/plugin_scan_context.py::PluginScanContext."
TM = "pymarkdown/general/tokenized_markdown.py::TokenizedMarkdown."

register(Assumed(TM + "transform_from_provider", returns="List[MarkdownToken]", fresh_result=True,
                 raises=[Raises("BadTokenizationError")], modifies=["_FileSourceProvider__read_index"],
                 ensures=["implies(len(result) > 0 and result[len(result) - 1].is_pragma, forall_val(lambda k: implies(k in result[len(result) - 1]._PragmaToken__pragma_lines, k != 0 and pragma_line_ok(result[len(result) - 1]._PragmaToken__pragma_lines[k], k > 0))))"],
                 why="the parser: opaque. Only BadTokenizationError leaves it (TokenizedMarkdown.__transform is one "
                     "try/except Exception -> BadTokenizationError; checked structurally in C15::parser_wraps)"))
_R["$fields"].types.update({
    "PluginScanContext.owning_manager": "PluginManager",
    "PluginScanContext.scan_file": "str",
    "PluginScanContext.line_number": "int",
    "FileSourceProvider._FileSourceProvider__read_lines": "List[str]",
    "FileSourceProvider._FileSourceProvider__read_index": "int",
    "FileSourceProvider._FileSourceProvider__did_final_line_end_with_newline": "bool",
})



from pyvc.spec import PROTECTED_FIELDS
PROTECTED_FIELDS.update({
    "value": "ReturnCodeHelper.__helper_name.value: stored only in ReturnCodeHelper.reset / set_initial_state",
    "_FileScanHelper__continue_on_error": "stored only in FileScanHelper.__init__ / process_files_to_scan",
    "_FileScanHelper__show_stack_trace": "stored only in FileScanHelper.__init__",
})

RP = "pymarkdown/plugin_manager/rule_plugin.py::RulePlugin."
_RULE_WHY = ("a rule callback (built-in or --add-plugin): may raise any Exception; writes only its own private state and, through "
             "the context API, the context's report list / fix requests / current fix line (proved for the 46 built-in rules by C12's "
             "frame obligations, assumed for third-party rules)")
_CTX = "context._PluginScanContext__"
_CTX_MODS = ["$rule_state", _CTX + "reported.$list", _CTX + "current_fix_line", _CTX + "fix_token_map.$dict",
             _CTX + "replace_token_list.$list"]
# ghost `trace`: the life-cycle events a rule instance observes, in order (C14)
register(Assumed(RP + "starting_new_file", raises=[Raises("Exception")], modifies=["$rule_state"], why=_RULE_WHY,
                 effects=["trace.append(('start', self))"]))
register(Assumed(RP + "next_token", raises=[Raises("Exception")], modifies=_CTX_MODS, why=_RULE_WHY,
                 ensures=["implies(not context.in_fix_mode, context.current_fix_line is old(context.current_fix_line))"],
                 effects=["trace.append(('tok', self, context, token))"]))
register(Assumed(RP + "next_line", raises=[Raises("Exception")], modifies=_CTX_MODS, why=_RULE_WHY,
                 ensures=["implies(not context.in_fix_mode, context.current_fix_line is old(context.current_fix_line))"],
                 effects=["trace.append(('line', self, context, context.line_number, line))", "g_cfl.append(context.current_fix_line)"]))
register(Assumed(RP + "completed_file", raises=[Raises("Exception")], modifies=_CTX_MODS, why=_RULE_WHY,
                 ensures=["implies(not context.in_fix_mode, context.current_fix_line is old(context.current_fix_line))"],
                 effects=["trace.append(('done', self, context, context.line_number))"]))

PROTECTED_FIELDS["$static.ReturnCodeHelper._ReturnCodeHelper__helper_name"] = "class attribute, never re-bound"
register(Assumed("inspect.stack", returns="List[FrameInfo]", ensures=["len(result) >= 1"], pure=True,
                 why="inspect.stack() always contains the current frame; used only to name the action in an error message"))
_R["$fields"].types.update({"FrameInfo.function": "str"})


# open(...) as a context manager + readlines(): universal-newline semantics of text mode
register(Assumed("builtins.open", params=["file", "mode"], returns="TextFile", fresh_result=True,
                 raises=[Raises("OSError")], pure=True,
                 why="open() returns a file object or raises OSError; the file system is not modelled"))
register(Assumed("open.__exit__", pure=True, why="closing a file read in full"))
register(Assumed("TextFile.readlines", params=[], returns="List[str]", fresh_result=True, raises=[Raises("UnicodeError"), Raises("OSError")],
                 ensures=["forall(lambda k: len(result[k]) >= 1, 0, len(result))",
                          "forall(lambda k: newline_free(result[k], 0, len(result[k]) - 1), 0, len(result))",
                          "forall(lambda k: result[k].endswith('\\n'), 0, len(result) - 1)"],
                 why="text-mode readlines(): every element non-empty, a newline only as last character, all but the last "
                     "element end with a newline (universal newlines translate \\r\\n and \\r); may raise UnicodeDecodeError"))

# ---- file system (ghost g_files: paths created or written by this run that currently exist)
_R["$fields"].types.update({"sys.stdin": "List[str]", "TempFile.name": "str"})
register(Assumed("tempfile.NamedTemporaryFile", params=["mode", "delete"], returns="TempFile", fresh_result=True,
                 raises=[Raises("OSError")],
                 ensures=["result.name not in g_files", "len(result.name) > 0"],
                 effects=["g_files.add(result.name)"],
                 why="creates a new, uniquely named file (name not in use) and returns an open handle; may raise OSError"))
register(Assumed("tempfile.NamedTemporaryFile.__exit__", params=[], pure=True,
                 why="closing the handle; with delete=False the file stays (the call sites that rely on deletion use the "
                     "per-site contract NTF_DELETE_EXIT)"))
register(Assumed("os.remove", params=["path"], raises=[Raises("OSError", when="path not in g_files")],
                 effects=["g_files.discard(path)"], pure=True,
                 why="removes the file; raises FileNotFoundError/OSError if it does not exist (other OS failures not modelled)"))
register(Assumed("os.path.exists", params=["path"], returns="bool", pure=True,
                 ensures=["implies(path in g_files, result)", "implies(not user_file(path), result == (path in g_files))"],
                 why="a file this run created and has not removed exists; a temporary path (fresh unique name) exists only if this run created it"))
register(Assumed("shutil.copyfile", params=["src", "dst"], raises=[Raises("OSError")], pure=True,
                 effects=["g_written.add(dst)"],
                 why="copies content of src over dst (dst is truncated first); ghost g_written records dst"))
register(Assumed("TempFile.write", params=["text"], raises=[Raises("OSError")], pure=True, why="write to an open temp file"))

for _n in ("continue_on_error", "primary_subparser", "x_fix_debug", "x_fix_file_debug", "x_fix_no_rescan_log", "x_test_stdin_fault",
           "return_code_scheme"):
    PROTECTED_FIELDS["ns." + _n] = "argparse.Namespace attribute: never stored to after parse_args (structural obligation C15::namespace_readonly)"

register(Assumed("pymarkdown/general/main_presentation.py::MainPresentation.print_scan_failure", modifies=["$presentation_state"],
                 effects=["g_printed.append(scan_failure)"],
                 why="output sink (stdout, or the result list of the API's presentation subclass): records the failure once; "
                     "writes only the presentation's own state; ghost g_printed records what was emitted, in order"))
register(Assumed("pymarkdown/general/main_presentation.py::MainPresentation.print_pragma_failure", modifies=["$presentation_state"],
                 effects=["g_pragma_errors.append((scan_file, line_number))"],
                 why="output sink for pragma errors (stderr or API result list)"))

PROTECTED_FIELDS["number_of_scan_failures"] = "PluginManager.number_of_scan_failures: stored only in PluginManager.__init__/initialize/log_scan_failure (structural obligation C18::protected[number_of_scan_failures])"

for _f in ("_FileScanHelper__plugins", "_FileScanHelper__tokenizer", "_FileScanHelper__presentation", "_FileScanHelper__handle_error"):
    PROTECTED_FIELDS[_f] = "stored only in FileScanHelper.__init__ (structural obligation C15::protected[FileScanHelper.*])"

PROTECTED_FIELDS["owning_manager"] = "PluginScanContext.owning_manager: stored only in PluginScanContext.__init__ (structural obligation C07::protected[owning_manager])"

for _f in ("_PyMarkdownLint__plugins", "_PyMarkdownLint__presentation", "_PyMarkdownLint__extensions", "_PyMarkdownLint__properties",
           "_PyMarkdownLint__string_to_scan"):
    PROTECTED_FIELDS[_f] = "stored only in PyMarkdownLint.__init__ (structural obligation C18::protected[PyMarkdownLint.*])"
_R["$fields"].types.update({"os.altsep": "Optional[str]", "os.sep": "str"})

_R["$namespace"].types.update({"paths": "List[str]", "recurse_directories": "bool", "alternate_extensions": "str", "list_files": "bool"})

_R["$fields"].types.update({"MarkdownToken._PragmaToken__pragma_lines": "Dict[int, str]", "PragmaToken._PragmaToken__pragma_lines": "Dict[int, str]"})
