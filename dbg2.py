import sys
sys.path.insert(0, '/verif')
import contracts
from pyvc.spec import REGISTRY
from pyvc.verify import verify_function
k=[kk for kk in REGISTRY if sys.argv[1] in kk][0]
r = verify_function(REGISTRY[k], REGISTRY)
print(r.status, r.message)
for o in r.obligations:
    print(o.result, o.name, '|', o.info[:100], '|', ' ; '.join(n for n in o.st.notes if not n.startswith('call '))[-200:])
