import sys
sys.path.insert(0, '/verif')
import contracts, z3
from pyvc.spec import REGISTRY
from pyvc.verify import verify_function
from pyvc.exec import has_quantifier
k=[kk for kk in REGISTRY if sys.argv[1] in kk][0]
r = verify_function(REGISTRY[k], REGISTRY)
for o in r.obligations:
    if 'cover.loop' in o.name:
        print(o.result)
        s=z3.Solver(); s.set(unsat_core=True)
        for i,p in enumerate(o.pc):
            if not has_quantifier(p): s.assert_and_track(p, f"p{i}")
        print(s.check())
        for c in s.unsat_core():
            print(c, o.pc[int(str(c)[1:])])
