import sys
sys.path.insert(0, '/verif')
import contracts, z3
from pyvc.spec import REGISTRY
import pyvc.stmt as st_
orig = st_.StmtMixin.probe_writes
def pw(self, body, st, extra, prelude=None):
    w = orig(self, body, st, extra, prelude)
    print("PROBE", getattr(body[0],'lineno',0), sorted(w), {k: len(v) for k,v in self.last_probe_cells.items()})
    return w
st_.StmtMixin.probe_writes = pw
from pyvc.verify import verify_function
k=[kk for kk in REGISTRY if sys.argv[1] in kk][0]
r = verify_function(REGISTRY[k], REGISTRY)
print(r.status, r.message, len(r.obligations))
for o in r.obligations: print(o.result, o.name)
