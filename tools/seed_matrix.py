#!/usr/bin/env python3
"""Which checks catch which seeded change: for every /verif/seeded/<id>/ apply patch.diff to a scratch copy of /repo's
pymarkdown/ (outside /repo and /verif, removed afterwards), run the checks named in EXTRA plus the seed's own property against
the copy (PYVC_REPO), and record the verdicts in meta.json["checks"] and seeded/README.md.
(The same result is obtained with tools/seedtest.sh, which applies the patch to /repo itself and undoes it afterwards.)"""
import json
import os
import re
import shutil
import subprocess
import sys
import tempfile
from concurrent.futures import ThreadPoolExecutor

VERIF = os.path.dirname(os.path.dirname(os.path.abspath(__file__)))
REPO = "/repo"
EXTRA = {"C12-A": ["C11"], "C06-B": ["C13"], "C16-A": ["C13", "C07", "C14", "C11"], "C05-B": ["C14"], "C07-B": ["C14"], "C08-A": ["C10", "C15"],
         "C15-B": ["C14"], "C13-B": ["C11"], "C18-A": ["C15"], "C19-A": ["C18"], "C14-A": ["C07"], "C17-A": ["C14"]}


def run_seed(sid):
    d = tempfile.mkdtemp(prefix="pyvc_seed_")
    out = {}
    try:
        shutil.copytree(os.path.join(REPO, "pymarkdown"), os.path.join(d, "pymarkdown"))
        for extra in ("newdocs", "docs"):
            if os.path.isdir(os.path.join(REPO, extra)):
                os.symlink(os.path.join(REPO, extra), os.path.join(d, extra))
        p = subprocess.run(["patch", "-p1", "-s", "-F3", "-i", os.path.join(VERIF, "seeded", sid, "patch.diff")], cwd=d, capture_output=True, text=True)
        if p.returncode != 0:
            return sid, {"_apply": "patch does not apply: " + (p.stdout + p.stderr)[-200:]}
        prop = sid.split("-")[0]
        for pid in [prop] + EXTRA.get(sid, []):
            env = dict(os.environ, PYVC_REPO=d, PYVC_EVIDENCE_DIR=os.path.join(d, "ev"), PYVC_REPLAY_DIR=os.path.join(d, "rp"))
            r = subprocess.run([os.path.join(VERIF, ".venv/bin/python"), "-m", "pyvc.run", pid, "--tier", "quick", "--jobs", "5"],
                               cwd=VERIF, env=env, capture_output=True, text=True)
            lines = r.stdout.splitlines()
            vio = [l for l in lines if l.startswith("VIOLATION")]
            und = [l for l in lines if l.startswith("UNDECIDED")]
            names = sorted({re.sub(r"^.*/" + pid + "/", "", l.split("replay=")[1].split()[0]).replace(".json", "")[-90:] for l in vio})
            reproduced = any("no-failing-input-found" not in l for l in vio)
            out[pid] = {"exit": r.returncode, "violations": len(vio), "undecided": len(und), "failed_obligations": names[:4],
                        "native_replay_reproduced": reproduced,
                        "verdict": ("VIOLATION" + (" (replayed natively)" if reproduced else "") if r.returncode == 1 else
                                    "UNDECIDED" if r.returncode == 2 else "held (change not detected)" if r.returncode == 0 else "CHECKER-BROKEN")}
        return sid, out
    finally:
        shutil.rmtree(d, ignore_errors=True)


def main():
    only = sys.argv[1:]
    sids = sorted(s for s in os.listdir(os.path.join(VERIF, "seeded")) if os.path.exists(os.path.join(VERIF, "seeded", s, "meta.json")))
    if only:
        sids = [s for s in sids if s in only or s.split("-")[0] in only]
    with ThreadPoolExecutor(3) as ex:
        for sid, res in ex.map(run_seed, sids):
            mp = os.path.join(VERIF, "seeded", sid, "meta.json")
            m = json.load(open(mp))
            m.setdefault("checks", {}).update(res)
            json.dump(m, open(mp, "w"), indent=1)
            print(sid, {k: v.get("verdict") if isinstance(v, dict) else v for k, v in res.items()}, flush=True)
    # README table from all meta.json
    rows = []
    for s in sorted(os.listdir(os.path.join(VERIF, "seeded"))):
        mp = os.path.join(VERIF, "seeded", s, "meta.json")
        if not os.path.exists(mp):
            continue
        m = json.load(open(mp))
        ch = m.get("checks", {})
        caught = [f"{k}: {v['verdict']}" for k, v in ch.items() if isinstance(v, dict) and v["exit"] in (1, 2)]
        missed = [k for k, v in ch.items() if isinstance(v, dict) and v["exit"] == 0]
        obl = next((v["failed_obligations"][0] for v in ch.values() if isinstance(v, dict) and v.get("failed_obligations")), "")
        rows.append(f"| {s} | {m['title'].split(' - ', 1)[-1].split(' — ', 1)[-1][:90]} | {'; '.join(caught) or '-'} | {', '.join(missed) or '-'} | `{obl}` |")
    with open(os.path.join(VERIF, "seeded", "README.md"), "w") as fh:
        fh.write("# Seeded changes and the checks that catch them\n\n"
                 "Each directory holds a realistic change to jackdewinter/pymarkdown written by a sub-agent that saw only the text of one property\n"
                 "(patch.diff), its demonstration (demo.py: exit 1 with the change, 0 without), the sub-agent's notes and meta.json (what it breaks,\n"
                 "what it needs to manifest, what was run to confirm it, which checks were run against it and their verdicts).\n"
                 "None of them is committed to /repo.  Regenerate this table with `tools/seed_matrix.py`.\n\n"
                 "| seed | change | caught by (verdict) | checks run that still hold | first failing obligation |\n|---|---|---|---|---|\n" + "\n".join(rows) + "\n")
    return 0


if __name__ == "__main__":
    sys.exit(main())
