#!/bin/bash
# Run every claimed check (quick tier) against /repo's working tree, regenerating /verif/evidence/*.json.  Prints one line per property.
cd "$(dirname "$0")/.."
rc=0
for p in $(python3 -c "import json;print(' '.join(c['property_id'] for c in json.load(open('MANIFEST.json'))['checks']))"); do
  out=$(./check $p --tier ${1:-quick} 2>&1); e=$?
  echo "$out" | grep -E "^(VIOLATION|UNDECIDED|CHECKER-BROKEN)" | head -5
  echo "$out" | tail -1 | sed "s/^/[exit $e] /"
  [ $e -ne 0 ] && rc=1
done
exit $rc
