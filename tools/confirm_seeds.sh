#!/bin/bash
# Confirm seeded changes in scratch worktrees of /repo (outside /repo and /verif): for each <dir> holding patch.diff + demo.py
#   1. the patch applies to /repo's HEAD,  2. the demo fails with it,  3. the unedited test suite still passes with it
#   (same failures as the unpatched tree),  4. the demo passes without it.
# Usage: confirm_seeds.sh <out.jsonl> <seed-dir>...      (worktrees are removed afterwards)
out=$1; shift
base_fail=/tmp/seed_baseline_failures.txt
run_suite() { # dir -> prints sorted failing test ids
  (cd "$1" && /venv/bin/python -m pytest -q -p no:cacheprovider -n 4 --timeout=900 2>&1 | grep -E "^(FAILED|ERROR) " | sed 's/ - .*//' | sort)
}
if [ ! -s $base_fail.done ]; then
  wt=/tmp/seedwt_base; git -C /repo worktree add -q --detach $wt HEAD
  run_suite $wt > $base_fail; touch $base_fail.done
  git -C /repo worktree remove --force $wt
fi
for d in "$@"; do
  id=$(basename $d)
  wt=/tmp/seedwt_$id
  git -C /repo worktree add -q --detach $wt HEAD
  ( cd $wt
    applies=yes
    git apply $d/patch.diff 2>/dev/null || patch -p1 -F3 -s < $d/patch.diff >/dev/null 2>&1 || applies=no
    find . -name '*.orig' -o -name '*.rej' | xargs -r rm -f
    if [ $applies = yes ]; then
      /venv/bin/python $d/demo.py > /tmp/seedwt_$id.demo_with 2>&1; with=$?
      run_suite $wt > /tmp/seedwt_$id.fail
      newfail=$(comm -23 /tmp/seedwt_$id.fail $base_fail | tr '\n' ' ')
      git checkout -q -- . ; git clean -fdq
      /venv/bin/python $d/demo.py > /tmp/seedwt_$id.demo_without 2>&1; without=$?
    else with=-1; without=-1; newfail="n/a"; fi
    python3 - "$id" "$applies" "$with" "$without" "$newfail" >> $out <<'PY'
import json, sys
i, a, w, wo, nf = sys.argv[1:6]
print(json.dumps({"id": i, "applies": a == "yes", "demo_exit_with_patch": int(w), "demo_exit_without_patch": int(wo), "new_test_failures": nf.split(),
                  "demo_tail_with_patch": open(f"/tmp/seedwt_{i}.demo_with").read()[-400:] if a == "yes" else ""}))
PY
  )
  git -C /repo worktree remove --force $wt
  rm -f /tmp/seedwt_$id.*
done
