#!/usr/bin/env python3
"""CPython cross-check of the PROVED pure contracts: the real function is called on random inputs and its contract
(requires / ensures text from /verif/contracts, unchanged) is evaluated natively with a small Python reading of the specification
functions.  A clause that is false natively while the verifier proved it means the ENCODING (or a specification function) is wrong:
exit 3.  This is a guard of the verifier, not a proof and not part of any claimed level.  Usage: crosscheck.py [n_samples]"""
import importlib
import inspect
import os
import random
import sys

VERIF = os.path.dirname(os.path.dirname(os.path.abspath(__file__)))
REPO = os.environ.get("PYVC_REPO", "/repo")
sys.path.insert(0, VERIF)
sys.path.insert(0, REPO)

import contracts  # noqa: E402,F401
from pyvc.spec import REGISTRY  # noqa: E402

ALPHA = [" ", "\t", "\n", "a", "b", "#", "*", "`", " ", "x"]


def rand_str(rng, maxlen=9):
    return "".join(rng.choice(ALPHA) for _ in range(rng.randint(0, maxlen)))


def forall(f, lo=None, hi=None):
    return all(f(k) for k in range(lo, hi))


def exists(f, lo=None, hi=None):
    return any(f(k) for k in range(lo, hi))


import ast as _ast


class _Lazy(_ast.NodeTransformer):
    """implies(a, b) -> (not a) or b   (the specification's implication does not evaluate b when a is false)"""

    def visit_Call(self, node):
        self.generic_visit(node)
        if isinstance(node.func, _ast.Name) and node.func.id == "implies" and len(node.args) == 2:
            return _ast.BoolOp(op=_ast.Or(), values=[_ast.UnaryOp(op=_ast.Not(), operand=node.args[0]), node.args[1]])
        return node


def compile_clause(text):
    tree = _Lazy().visit(_ast.parse(text.strip(), mode="eval"))
    _ast.fix_missing_locations(tree)
    return compile(tree, "<contract>", "eval")


SPEC = {
    "forall": forall, "exists": exists, "implies": lambda a, b: (not a) or b,
    "is_ws": lambda s, k: 0 <= k < len(s) and s[k] in " \t",
    "char_at": lambda s, k: ord(s[k]) if 0 <= k < len(s) else -1,
}

TARGETS = {
    "pymarkdown/general/parser_helper.py::ParserHelper.": [
        "is_character_at_index_whitespace", "is_character_at_index_not_whitespace", "is_character_at_index", "extract_spaces",
        "extract_until_spaces", "extract_spaces_verified", "extract_until_spaces_verified", "collect_while_character", "adjust_for_newlines"],
}


def gen_args(rng, names):
    s = rand_str(rng)
    out = {}
    for n in names:
        if n in ("source_string",):
            out[n] = s
        elif n in ("valid_character", "match_character"):
            out[n] = rng.choice(ALPHA)
        elif n in ("index_in_string", "start_index"):
            out[n] = rng.randint(-2, len(s) + 2)
        elif n == "end_index":
            out[n] = rng.randint(-1, len(s) + 2)
        else:
            raise KeyError(n)
    return out


def main():
    n = int(sys.argv[1]) if len(sys.argv) > 1 else 3000
    rng = random.Random(int(os.environ.get("VERIF_SEED", "0") or 0))
    mod = importlib.import_module("pymarkdown.general.parser_helper")
    bad, evaluated = [], 0
    for prefix, names in TARGETS.items():
        for name in names:
            c = REGISTRY[prefix + name]
            fn = getattr(mod.ParserHelper, name)
            params = list(inspect.signature(fn).parameters)
            for _ in range(n):
                args = gen_args(rng, params)
                env = dict(SPEC, **args)
                try:
                    if not all(eval(compile_clause(r), env) for r in c.requires):      # noqa: S307 (our own contract text)
                        continue
                except Exception:
                    continue
                try:
                    env["result"] = fn(**args)
                except AssertionError:
                    # the contracts with a `requires` exclude the asserts; without one, raising is a listed outcome or a bug
                    if c.requires or any(r.exc == "AssertionError" for r in c.raises):
                        if c.requires:
                            bad.append((name, args, "AssertionError inside the precondition"))
                        continue
                    bad.append((name, args, "AssertionError not listed"))
                    continue
                for e in c.ensures:
                    evaluated += 1
                    try:
                        ok = bool(eval(compile_clause(e), env))      # noqa: S307
                    except Exception as ex:          # a clause that cannot be evaluated natively is an error of this tool
                        bad.append((name, args, f"cannot evaluate `{e[:80]}`: {type(ex).__name__}: {ex}"))
                        break
                    if not ok:
                        bad.append((name, args, f"clause false natively: {e[:140]} (result={env['result']!r})"))
                        break
    for b in bad[:12]:
        print("CROSSCHECK-FAIL", b)
    print(f"crosscheck: {evaluated} clause evaluations on the real functions, {len(bad)} failures")
    return 3 if bad else 0


if __name__ == "__main__":
    sys.exit(main())
