import sys, time
sys.path.insert(0, '/verif')
import contracts
from pyvc.spec import REGISTRY
from pyvc.verify import verify_function
keys = sys.argv[1:] or [k for k, c in REGISTRY.items() if '::' in k and not c.assumed]
bad = 0
for k in keys:
    matches = [kk for kk in REGISTRY if k in kk]
    for kk in matches:
        c = REGISTRY[kk]
        if c.assumed: continue
        r = verify_function(c, REGISTRY)
        n = len(r.obligations); ok = sum(1 for o in r.obligations if (o.result == 'unsat') != o.must_be_sat and o.result in ('sat','unsat'))
        print(f"{kk}: {r.status} {r.message} paths={r.paths} obligations={n} ok={ok} exec={r.time_exec:.2f}s solve={r.time_solve:.2f}s feas={r.feas_checks}")
        for o in r.obligations:
            good = (o.result == 'unsat') != o.must_be_sat and o.result in ('sat','unsat')
            if not good and o.kind == 'cover_exit': continue
            if not good:
                bad += 1
                if r.status != 'ok' or bad > 8: continue
                print("   FAIL", o.name, o.result, '|', o.info[:200])
                print("      notes:", ' ; '.join(n for n in o.st.notes if not n.startswith('call '))[-300:])
                if o.model is not None and '-m' in sys.argv:
                    print(o.model)
print("bad", bad)
