import sys
sys.path.insert(0,'/verif')
import contracts
from contracts import structural
res = structural.run(sys.argv[1], 'quick')
bad=[r for r in res if not r['ok']]
print(len(res), 'obligations', len(bad), 'failing')
for r in bad: print(' ', r['name'], '|', r['detail'][:200])
