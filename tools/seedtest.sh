#!/bin/sh
# tools/seedtest.sh <patch.diff> <property id>...   : apply a seeded change to /repo, run the checks, undo it.
P="$1"; shift
cd /repo || exit 9
[ -z "$(git status --porcelain)" ] || { echo "REPO-NOT-CLEAN"; exit 7; }
if git apply --check "$P" 2>/dev/null; then git apply "$P"
elif patch -p1 --dry-run -F3 -s < "$P" >/dev/null 2>&1; then patch -p1 -F3 -s --no-backup-if-mismatch < "$P"
else echo "PATCH-DOES-NOT-APPLY $P"; exit 8; fi
SCR=$(mktemp -d)
for pid in "$@"; do
  (cd /verif && PYVC_EVIDENCE_DIR="$SCR/ev" PYVC_REPLAY_DIR="$SCR/rp" ./check "$pid" --tier quick 2>&1 | grep -E "^(VIOLATION|UNDECIDED|CHECKER-BROKEN|$pid:)" | cut -c1-260 | head -6; )
done
rm -rf "$SCR"
cd /repo && git checkout -- . && git status --short | head -3
