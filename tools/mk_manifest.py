#!/usr/bin/env python3
"""Regenerates MANIFEST.json from the table below (kept by hand)."""
import json
import os

HERE = os.path.dirname(os.path.dirname(os.path.abspath(__file__)))

TECH = "contract-based deductive verification: sidecar contracts on the real functions, VCs generated from the AST by pyvc, discharged by z3 (cvc5 fallback)"
TB = ("Trusted: pyvc's encoding of the Python subset (DESIGN.md 3), z3/cvc5, CPython, the assumed contracts listed in the evidence file "
      "(opaque callees: parser, rule callbacks, OS, argparse, application_properties), type annotations hold at run time, logging calls are pure. ")

CLAIMS = {
    "C18": dict(
        text="Proof, for all inputs, of the exit-code chain: both scheme tables equal the documented table; exit_application raises SystemExit "
             "with table[scheme][category]; main() never returns and every exit it takes carries a code of the documented table for the selected "
             "scheme; the category of a scan/fix run is the documented function of (discovery error, #files, any file failed, any file fixed, "
             "#failures), with 'failed' dominating; scheme precedence argument > configuration > default; no exit outside ReturnCodeHelper.",
        note=TB + "Known finding D4 (no files selected => SUCCESS) is listed in known_findings.json. argparse's own exit(2) is assumed."),
    "C15": dict(
        text="Proof of the containment mechanism with every callee that can fail modelled as 'may raise at this call': a failing rule callback "
             "leaves the dispatchers only as BadPluginError; a failing file yields did_succeed == False or SystemExit(SYSTEM_ERROR); per-file "
             "outcomes are accumulated so that any failure gives SYSTEM_ERROR (never SUCCESS/FIXED), also for scan-stdin; with --continue-on-error "
             "every file of the list is processed exactly once; the stdin spool file is removed on every exit; failures collected before a fault "
             "are reported exactly once; in fix mode no temporary file of a pass survives it on any exit (D2 fixed), a pass cut short by a "
             "failing rule or by the parser has not written the user's file, and an undecodable document surfaces as an error because the "
             "document is opened as strict utf-8 (errors= / newline= must not be given) and a read / decode failure never escapes the per-file "
             "handler: it is reported with the file's name and counts as that file's failure (D26 fixed).",
        note=TB + "Known finding D8 (a later fix level failing after an earlier level was copied back). NOT covered: the token pass of fix "
                  "mode below __process_file_fix_tokens (assumed contract: parser + rules + regenerator), the crash-point clause (a "
                  "sequential contract cannot express a process dying mid-copy; copy-back is shutil.copyfile, D9); that the text of a message names "
                  "the file is read off the formatter (MainPresentation.format_scan_error), not proved."),
}

CLAIMS["C14"] = dict(
    text="Proof that the engine honours the life-cycle for every file, stated over ghost call traces: FileSourceProvider holds exactly the "
         "lines readlines() returned (newline stripped, empty last line iff the text ends with a newline); __scan_file calls starting_new_file, "
         "then [compile_pragmas], then next_token once per token of the parser's stream for that file in order (pragma token removed first), "
         "then next_line(k+1, line k, is_last) for every line in order, then completed_file(n+1), then report; each PluginManager dispatcher "
         "delivers its event to every rule of the corresponding dispatch list exactly once, in list order, with the same context/token/line "
         "(scan mode; loop invariants, no bound); apply_configuration builds the four dispatch lists as exactly the selected rules whose "
         "class implements the callback, each once, after configuring and initialising every selected rule exactly once "
         "(__apply_configuration; witnesses kept in ghost index lists).",
    note=TB + "Fix mode: the token pass of a fix level (FileScanHelper.__process_file_fix_tokens) is proved at engine level -- both contexts "
              "started, every token delivered once in order with the rule -> context map, completed_file once, fixes applied afterwards "
              "(the token list is assumed not to be changed by the rules while it is walked); inside the dispatchers with a context_map only "
              "exception wrapping, frames and 'one write per line' are proved, not the per-rule event sequence. That "
              "set_configuration_map derives the four is_*_implemented flags from the class dictionary is an assumed contract (class "
              "introspection). The per-rule projection of the two trace levels is composed on paper (DESIGN.md 5/C14).")
CLAIMS["C07"] = dict(
    text="Proof of the engine half: whatever a rule callback raises, only BadPluginError leaves the four dispatchers (all loop positions); "
         "PluginScanFailure.__lt__ is the lexicographic (line, column, rule id) order; report_on_triggered_rules hands every collected failure "
         "to the manager exactly once (bijection witnessed by a ghost index list), in that order, and empties the list; __scan_file reports "
         "exactly once on every exit; log_scan_failure prints and counts a failure iff no pragma covers it.",
    note=TB + "NOT covered: the rules' own state machines (an IndexError inside a rule surfaces as BadPluginError, it is not excluded), "
              "range of token-driven positions (C05), uniqueness of what a single rule reports.")

CLAIMS["C13"] = dict(
    text="Proof, by 2-safety obligations decided on the real source, that nothing survives from one file to the next: for each of the 46 "
         "rules and their helper classes every field written per file (154 fields, computed from the AST) is re-assigned by starting_new_file "
         "a value that depends on constants and configuration fields only, or carries a recorded disposition (guarded / drained / conditional) "
         "whose side-condition is re-checked; PluginManager.starting_new_file empties the pragma tables and returns a fresh context (pyvc); "
         "every class-level variable of the parser that is written after import is re-initialised by an initialiser that __transform runs for "
         "every document before the block pass; the block pass re-creates stack, document and pragma-line map before anything can raise; "
         "ReturnCodeHelper.reset and the zeroing of the failure counter at initialisation (pyvc).",
    note=TB + "Syntactic determinism stands in for the relational proof: an expression built from constants, constructors and configuration "
              "fields is equal in two runs with equal configuration. Dispositions (14 fields) rest on stated stream properties (every block "
              "quote closes, the stream ends with an end-of-stream token). Third-party plugins are not covered.")

CLAIMS["C12"] = dict(
    text="Proof of the premises of rule independence: P1 a frame obligation for every method of the 46 rules and their helper classes "
         "(582 methods/modules): every store, del and mutating call has a root that is self or a freshly created object; the delivered "
         "token, the context outside its reporting/fix API, module globals and class attributes are never written; token mutators are only "
         "applied to copies; set_current_fix_line is reached only under in_fix_mode; P2 helpers are per instance; P3 the dispatchers deliver "
         "the same token/line/context to every rule of the list and write only context.line_number (pyvc, loop invariants); P4 collection "
         "is append + key-sorted output + per-entry filtering (pyvc). The union property follows by the composition argument of DESIGN.md 5/C12.",
    note=TB + "The composition step is on paper. Ownership is decided syntactically (fresh = constructor / copy / literal / slice / str method, "
              "or a private-method parameter that receives such a value at every call site); a harmless change outside this discipline is "
              "reported as a violation of frame.<Class>.<method> and needs the annotation list to be extended. Third-party rules are assumed "
              "to respect the same frame. Pragma handling shared between rules (compile_pragmas) is covered under C11.")

CLAIMS["C19"] = dict(
    text="Proof over an abstract, immutable file system (uninterpreted exists/isdir/isfile): a file is eligible iff it is a plain file whose "
         "name ends with one of the extensions; a path argument errs iff it does not exist or is an ineligible file, and exactly then one error "
         "is reported and nothing is added; everything added to the set is eligible and nothing is ever removed; only arguments containing * or ? "
         "are glob-expanded; the result is strictly increasing (sorted) and no two entries denote the same absolute path (each file once however "
         "it is spelled; D23 fixed); the error flag implies a reported error; list mode prints "
         "iff the list is non-empty; in main: a discovery error means process_files_to_scan is never reached, and list mode ends with "
         "NO_FILES_TO_SCAN iff nothing is selected or an argument erred (independent of argument order).",
    note=TB + "Known finding D4: arguments that select no file end with SUCCESS. NOT covered: completeness of the directory walk (every eligible "
              "file under a directory is found; --recurse semantics) because os.walk is opaque; Windows path-separator normalisation; that glob() "
              "itself matches the documented pattern language.")

CLAIMS["C17"] = dict(
    text="Proof of the precedence chain: __handle_command_line_settings returns False if '*' or any identifier of the rule is in the disable "
         "set, else True if any identifier is in the enable set, else None (disable wins; id and every alias are equivalent) - loop invariants; "
         "__find_configuration_for_plugin returns the section of the first identifier that has any key and __apply_configuration hands exactly "
         "that section (else the section of the rule's id) to the rule; __determine_if_plugin_enabled = command "
         "line, else the section's boolean 'enabled', else the rule's default; configuration layers are loaded in the order pyproject < default "
         "file < --config < --set, each with clear_property_map=False (ghost trace of loader calls, all 153 paths); return-code scheme: argument, "
         "then validated configuration value, then default; for all 46 rules the identifiers, every configuration item's name, type and "
         "default, and the default enabled state equal the documented tables, and every read goes through a typed getter.",
    note=TB + "Assumed: application_properties (later load overwrites equal keys; typed getters fall back to the default unless strict); argparse. "
              "Documentation tables are compared through the committed transcription specs/rule_config.json (5 corrections with reasons). "
              "NOT covered: validators' predicates against the prose, YAML/TOML parsing.")

CLAIMS["C11"] = dict(
    text="Proof of the suppression half: log_scan_failure prints and counts a failure iff neither the line map nor any range covers "
         "(line, lower-cased rule id) - inclusive at both ends; disable-next-line adds, for line+1 and no other key, exactly the normalised ids of "
         "every known identifier in the list (completeness for every list entry, soundness with an explicit ghost witness), unknown or blank "
         "entries are reported and do not stop the others; disable-num-lines N: a missing / non-integer / <1 count or a missing list gives one "
         "error and no range, otherwise exactly one range [line+1, line+N] with the same id-set semantics is appended and earlier ranges are "
         "untouched; an unknown command suppresses nothing; compile_pragmas compiles every stored line and resolves identifiers against ALL "
         "registered rules; look_for_pragmas stores a line only at container depth 0 without leading whitespace, under +line/-line, and "
         "changes nothing otherwise; the pragma token is compiled before any token is delivered and is never delivered (C14); the scanning "
         "primitives used are proved index-safe and terminating; the pragma-line map has a single writer and is re-created per document.",
    note=TB + "str.split/strip/lower/rstrip are uninterpreted functions with length facts only: the clauses speak about 'the entries of the "
              "split list, stripped and lower-cased', not about characters. int() of the count is an uninterpreted partial function. "
              "The pragma line shift of fix mode is proved under C08 (__apply_replacement_fix, adjust_pragma_line_number; D12 fixed). "
              "NOT covered: 'the document parses as if the pragma line had been deleted' (parser-level) -- observation D27 (DESIGN.md 11.3): "
              "inline positions after a pragma line inside a paragraph are one line too small, so that pragma suppresses nothing.")

CLAIMS["C10"] = dict(
    text="Proof, with ghost sets g_written (targets of shutil.copyfile) and g_files (temporary files that exist): one fix pass overwrites the "
         "user's file iff it reports a fix iff line records or token fixes exist, and overwrites nothing else; the scheduler overwrites the file "
         "iff it returns True; the file loop announces 'Fixed: f' iff the fixer reported f as fixed, did_fix_any_file iff some file was fixed, "
         "FIXED_AT_LEAST_ONE_FILE iff fixed and no failure (C18); in scan / scan-stdin mode nothing is ever written and the stdin spool is "
         "removed on every exit; no temporary file survives any exit of the fix pass (all 313 paths, exceptions included); structurally, every "
         "file-system write site of pymarkdown/ is in a function reachable only under `if in_fix_mode`, or is the proved stdin spool, the log "
         "handler or the API's fix_string; through the API a fix run that ended with either success code (0 or 3: under the minimal scheme a "
         "run that fixed files ends with 0) hands back exactly the list the 'Fixed:' announcements were collected in, any other code raises "
         "(PyMarkdownApi.__handle_fix_results; seeded change C10-C).",
    note=TB + "Known finding D8 (a level already written back is neither announced nor restored when a later level fails). Assumed: the token "
              "pass __process_file_fix_tokens creates only the temporary file it returns; a fix record implies the bytes differ (a rule may "
              "record a no-op fix); 'a file whose scan is clean is left byte-identical' rests on the rules (C09) and fails for failures "
              "suppressed by pragmas: known finding D22 (fix mode never consults the pragma tables). In fix mode every line handed to "
              "PluginManager.next_line is written to the output of the pass exactly once (D21, data loss, fixed).")
CLAIMS["C09"] = dict(
    text="Proof of the scheduler fragment: __process_file_fix never fails internally (no ValueError from min() of an empty level map - D3 "
         "fixed; only the exceptions of the passes can escape) and returns the disjunction of the passes; __process_file_fix_next_level "
         "continues only with a strictly higher fix level (loop invariant over the trigger set, order-independent) and otherwise stops, so the "
         "number of passes is bounded by the number of levels; every rule that triggered in the token pass OR the line pass is taken into "
         "account for the next level; in the line pass each rule receives the line as fixed by the rules before it (ghost-trace chaining clause "
         "of PluginManager.next_line, all modes).",
    note=TB + "This is the engine half only. NOT covered: that one run reaches a fixed point (fix(fix(d)) == fix(d)), that rules of different "
              "levels do not undo each other, the per-rule 'fix is a projection' lemma planned in DESIGN.md 5/C09: these need the rules' token "
              "logic and the re-parse. The assertion that triggered ids belong to higher levels is allowed to fail (AssertionError/KeyError are "
              "listed as possible escapes).")

CLAIMS["C16"] = dict(
    text="Proof of the funnel and of non-interference of diagnostics: scan-stdin / scan_string spool exactly the given string (or every stdin "
         "line in order) and then call the same per-file scan function as a named file, only the reported name differs; the API's "
         "__build_common_arguments returns, position by position, the command-line spelling of the API object's state (all 96 paths); the "
         "--stack-trace flag only ever flows into what is put INTO an error message (structural data-flow obligation over all 18 reads); every "
         "ParserLogger call has a literal format or passes no arguments, and ParserLogger logs argument-less messages verbatim, so enabling "
         "a log level cannot make a call fail on document text (D11 fixed); "
         "the in-memory provider of scan_string / fix_string delivers exactly the text up to each newline and keeps exactly what follows "
         "it (InMemorySourceProvider against an assumed contract of str.split(sep, 1)), the line structure FileSourceProvider produces; "
         "fix_string spools exactly the given characters without newline translation, runs `fix <spool>` once through the common entry "
         "point, returns the text read back from that file untranslated and removes the spool on every exit (D18, D19 fixed); the "
         "stdin / scan_string spool is written as UTF-8, the encoding it is read back with (D20 fixed).",
    note=TB + "NOT covered: scan_path / fix_path / list_path wrappers, OS newline translation ('\\r' is a line end for a file, "
              "not for a string); the two providers are each proved against 'lines end at newline characters', their equality is the "
              "composition of the two contracts (on paper).")

CLAIMS["C20"] = dict(
    text="Proof of the inertness mechanism: every use of an extension's entry point in the parser (extended autolinks handlers, pragma "
         "detection, front-matter header processing, task-list token creation, the strikethrough delimiter) is dominated by that "
         "extension's enabled flag (structural obligation per use site); the inline handler tables and the emphasis alphabet are rebuilt "
         "from the flags for every document (C13 obligations shared); ParseBlockPassProperties copies the flags unchanged; pragma detection "
         "stores a line only at depth 0 and changes nothing otherwise (pyvc, shared with C11); the pragma-line map has a single writer; the "
         "front-matter header either becomes ONE token at (1,1) whose collected lines are exactly the lines read between the fences, with "
         "the caller continuing at the right line number, or every line taken from the provider is handed back in order and unchanged "
         "(__handle_document_front_matter, ghost trace of the provider, loop invariant).",
    note=TB + "D7 (assertion at end of input) and D16 (closing fence replaced by the opening fence on abandon) are fixed (acf28c8, 22a434d). "
              "is_thematic_break and the YAML loader are assumed opaque. NOT covered: 'enabling an extension changes the parse only of "
              "documents that contain its syntax' (parser-level).")

CLAIMS["C05"] = dict(
    text="Proof of the position-carrying primitives only (a fragment of the property): MarkdownToken.__init__ and the container / leaf / inline base classes give a token built from a position marker exactly (marker.line_number, marker.index_number + marker.index_indent + 1); report_next_token_error / report_next_line_error report exactly the token's (or the line's) position plus the rule's explicit deltas, once, and add_triggered_rule records exactly that position; the scanning primitives the column arithmetic is built from (is_character_at_index*, extract_spaces, extract_until_spaces, collect_while_character) are index-safe, terminate (variant) and return exactly the maximal run from the start index (loop invariants, no bound); adjust_for_newlines restarts the column after the last newline; after a full reference link / image whose label spans lines the column is (leading whitespace the paragraph keeps for that line) + (characters of the label's last line) + 2 and the line moves by the number of newlines in the label (__calculate_full_deltas; D14 fixed); after a code span the inline pass restarts line and column (delta_line_number >= 0) exactly when the SOURCE text between the opening and the closing backticks contains a newline -- whatever padding is stripped from the span's content -- and otherwise stays on the line, and the code span token sits at the request's line and at column + len(remaining_line) (InlineBacktickHelper.__build_backtick_response; seeded change C05-C); the front-matter token sits at (1,1) and the caller continues at the right line number.",
    note=TB + "NOT covered: which marker each of the ~30 token kinds is built from and the rest of the per-construct delta arithmetic of the inline processor (outside the subset); block tokens in non-decreasing line order; 'the source text at that position is the opening text'. Observation D15 (DESIGN.md 11.3): inside a list item inline elements on continuation lines get a column that is too small by the list indent -- no obligation covers it, golden tests pin it.")

CLAIMS["C04"] = dict(
    text="Proof of the nesting discipline at the places that create end tokens and shrink or rewind the block stack (a fragment of the property): an EndMarkdownToken records the start token it closes and can only be built for a token that wants one (EndMarkdownToken.__init__, both generators); in the parser end tokens are built only by those generators (structural); the block stack is changed only by append / del [-1] (one structural obligation per mutation site) and every end token generated from a stack entry comes from the top entry, which is then removed; __remove_top_element_from_stack removes exactly the top entry, keeps everything below and returns the end token of that entry's markdown token; the LRD rewind leaves the stack exactly equal to the surviving prefix or to the snapshot, entry for entry (loop invariants); after an emphasis pair is matched no delimiter strictly inside the pair stays active, so pairs cannot cross (EmphasisHelper.__mark_used_tokens, loop invariant); container / leaf / inline base classes fix the token class and containers always require an end token.",
    note=TB + 'NOT covered: that the parser calls these functions in an order that yields a balanced stream for every document (a postcondition of the whole block pass, not within reach), that nothing is left open at the end of the document, that a new-list-item token appears directly inside its list, link/image nesting, and the stacks kept by rules and generators.')

CLAIMS["C08"] = dict(
    text="Proof of what a fix is allowed to touch (a fragment of the property): the fix vocabulary is closed -- every (rule, token field) a rule can pass to register_fix_token_request, the field name resolved through locals, parameters and queued Fixer records, is in the whitelist specs/fix_vocabulary.json, and token ranges are replaced only by MD012/MD031/MD046 (one structural obligation per call site); a request is queued exactly once behind those already queued for the token and nothing else in the queue changes (register_fix_token_request, register_replace_tokens_request); _modify_token of all 15 token classes stores the requested value into exactly the attribute behind the named field and nothing else but the derived extra_data, unknown field or ill-typed value changes nothing; the replacement splice __apply_replacement_fix keeps every token before and after the replaced range exactly once and in order, moves the line number of exactly the tokens after the range by (lines of the replacement - lines replaced) and moves every pragma line below the range -- also those of the alternate '<!---' prefix, kept under negative keys -- by the same amount while every other pragma stays, none lost or overwritten (loop invariants, no bound; D12, D17 fixed); conflicting requests are refused, never silently resolved (__look_for_collisions raises iff a token of the range is already edited or replaced, __apply_replacements checks ALL replacements before applying the first and applies each once in order, __apply_token_fix applies every requested edit once, in order, and aborts when the token refuses one); a fix pass cut short by a failing rule or the parser has not written the user's file; in fix mode every line handed to PluginManager.next_line is written to the output of the pass exactly once, whichever context the last rule was given (D21, data loss, fixed); every character the regenerator deletes from its output is reserved by the parser (fails: known finding D6); the one fix that rewrites a content-bearing field with a computed text is pinned down character for character: MD038 requests span_text minus its first character iff that is the unnecessary leading space and minus its last character iff that is the unnecessary trailing space, every other character kept in place (seeded change C08-C).",
    note=TB + 'Known finding D6 (thorn / U+8268 / U+8269 deleted by any token-level fix). NOT covered: that editing a style field preserves the parse (indent_level ...), the regenerator itself (incl. where it re-inserts pragma lines, D17(a)), that the value a rule writes into a text-carrying field equals the old text up to whitespace, for the rules other than MD038 (MD037 / MD039 / MD044 edit text fields too). Meaning preservation of the whole pipeline is not decided by this check.')

CLAIMS["C06"] = dict(
    text="Proof for the thirteen rules brought under contract (a fragment: the property quantifies over all 46 rules), each against a spec automaton transcribed from the rule's documentation, for all token / line sequences and all configurations: MD013 (line length: limit by element kind, headings / code_blocks switches, long-last-word exemption, strict; the quick-reject threshold established by initialize_from_config never exceeds a limit), MD001 (heading increment, incl. the front-matter title and the value the fix requests), MD025 (single top-level heading), MD035 (thematic-break style, consistent mode), MD047 (file ends with a newline, reported at the end of the last line; fix appends exactly one newline), MD048 (code-fence style, consistent mode, fix character), MD004 (unordered-list marker: configured / consistent / per-level `sublist` expectation kept in a map, nesting level, fix character), MD041 (first element: nothing after the first verdict, heading level, every reported position has line >= 1 and column >= 1; D24 fixed), MD046 (code-block style, consistent mode; scan mode only), MD040 / MD042 / MD045 (fenced block without language; inline link or image whose URI is empty, blank or '#'; image without alternate text: reported iff the documented field stripped of the documented character class is empty, for exactly the documented token kinds), MD038 (code span with an unnecessary leading / trailing space: exactly the documented shape, and the text the fix requests): each step reports exactly once iff the documented condition holds in the automaton state, at the token's position, and updates the state as documented; every starting_new_file re-initialises that state; for all 46 rules the configuration items read by initialize_from_config (names, types, defaults) equal the documented table (shared with C17).",
    note=TB + "Known finding D13 (MD013 stern mode inverted against its documentation). NOT covered: the trigger conditions of the other 33 rules (their token-driven state machines need the token stream specified first, C04/C05 in full); which leaf token a line belongs to (MD013) is taken from the rule's own bookkeeping; string comparisons of texts longer than one character are by identity of the string value in the encoding (the specification uses the same comparison); str.strip(chars) is an uninterpreted function of (string, chars) with length facts only, so MD040 / MD042 / MD045 are proved relative to Python's meaning of strip.")

NA = {
    "C01": "totality of the ~60 kLoC parser is a postcondition of TokenizedMarkdown.transform; no contract chain within reach without a Python deductive verifier (DESIGN.md 7)",
    "C02": "round-trip of parser + 5 kLoC regenerator needs the token stream specified as an encoding of the document (C03+C04+C05 in full) first (DESIGN.md 7)",
    "C03": "conformance to an external prose specification; the only executable oracle is another implementation, i.e. differential testing, a different family (DESIGN.md 7)",
}
PENDING = "contracts designed (DESIGN.md 5) but the check is not yet built at this commit"


EXPECTED_CLAIMS = [f"C{i:02d}" for i in range(4, 21)]


def main():
    missing = [p for p in EXPECTED_CLAIMS if p not in CLAIMS]
    assert not missing, f"claims lost from this file: {missing} (every built check must stay claimed)"
    checks = []
    for pid, c in sorted(CLAIMS.items()):
        checks.append({
            "property_id": pid, "quick_cmd": f"./check {pid} --tier quick", "thorough_cmd": f"./check {pid} --tier thorough",
            "evidence_file": f"/verif/evidence/{pid}.json", "replay_cmd_template": f"./check {pid} --replay {{path}}", "engine": "pyvc",
            "level_claimed": {"category": "proof", "text": c["text"], "design_ref": f"DESIGN.md 5/{pid}"},
            "level_note": c["note"], "technique": TECH,
        })
    na = [{"property_id": k, "reason": v} for k, v in NA.items()]
    for i in range(4, 21):
        pid = f"C{i:02d}"
        if pid not in CLAIMS and pid not in NA:
            na.append({"property_id": pid, "reason": PENDING})
    m = {
        "version": 1, "setup_cmd": "./setup.sh",
        "hooks": {"guard": "PYMARKDOWN_VERIF", "enable": "no hooks: contracts are sidecar files under /verif/contracts; checks read /repo's working tree directly",
                  "baseline_off_cmd": "cd /repo && /venv/bin/python -m pytest -ra -q -p no:cacheprovider --timeout=900 --continue-on-collection-errors",
                  "source_commits": [], "add_only": True},
        "engines": [{"name": "pyvc", "path": "/verif/pyvc", "serves_properties": sorted(CLAIMS),
                     "kind_free_text": "contract-based deductive verifier for a Python subset: ast -> symbolic execution -> verification conditions -> z3 (cvc5 fallback)"}],
        "checks": checks, "not_applicable": sorted(na, key=lambda x: x["property_id"]),
        "notes": "see DESIGN.md; fixes to /repo are recorded in known_findings.json (status fixed)",
    }
    json.dump(m, open(os.path.join(HERE, "MANIFEST.json"), "w"), indent=1)


if __name__ == "__main__":
    main()
