#!/usr/bin/env python3
"""One-time transcription of the 'Configuration' tables of newdocs/src/plugins/rule_*.md into specs/rule_config.json.
The checks compare the CODE with the committed spec, never with the live documentation (a typo in a .md file can
not raise an alarm about correct code).  `--drift` prints differences between the live docs and the committed spec."""
import json, os, re, sys
REPO = os.environ.get("PYVC_REPO", "/repo")
HERE = os.path.dirname(os.path.dirname(os.path.abspath(__file__)))

def parse_doc(path):
    txt = open(path, encoding="utf-8").read()
    m = re.search(r"^## Configuration\s*$(.*?)(?=^## |\Z)", txt, re.M | re.S)
    sec = m.group(1) if m else ""
    prefixes = re.findall(r"^\|\s*`plugins\.([^`]+?)\.`\s*\|", sec, re.M)
    items = {}
    tm = re.search(r"^\|\s*Value Name\s*\|.*?$\n^\|[-| ]+\|\s*$\n((?:^\|.*\|\s*$\n?)+)", sec, re.M)
    sec = tm.group(1) if tm else ""
    for row in re.findall(r"^\|\s*`([a-z_0-9-]+)`\s*\|\s*`?([a-zA-Z]+)`?[^|]*\|\s*(.*?)\s*\|.*\|\s*$", sec, re.M):
        name, typ, default = row
        default = default.strip().strip("`")
        items[name] = {"type": typ.strip().lower(), "default": default}
    return {"prefixes": prefixes, "items": items}

def main():
    d = os.path.join(REPO, "newdocs/src/plugins")
    out = {}
    for fn in sorted(os.listdir(d)):
        m = re.match(r"rule_(md|pml)(\d+)\.md$", fn)
        if m:
            out[(m.group(1) + m.group(2)).lower()] = parse_doc(os.path.join(d, fn))
    if "--drift" in sys.argv:
        cur = json.load(open(os.path.join(HERE, "specs/rule_config.json")))["rules"]
        for k in sorted(set(out) | set(cur)):
            a, b = out.get(k), {x: cur.get(k, {}).get(x) for x in ("prefixes", "items")}
            if a != b:
                print("drift", k, json.dumps(a), "vs committed", json.dumps(b))
        return
    json.dump({"_source": "newdocs/src/plugins/rule_*.md, section Configuration (transcribed by tools/transcribe_rule_docs.py, then reviewed by hand; see 'corrections')",
               "corrections": {}, "rules": out}, sys.stdout, indent=1)

main()
