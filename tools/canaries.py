#!/usr/bin/env python3
"""Guarding the guard: apply each canary mutation to a scratch copy of /repo/pymarkdown (outside /repo and /verif),
run the property's check against the copy, and require a VIOLATION naming the expected function.  Exit 3 if a canary survives."""
import json
import os
import shutil
import subprocess
import sys
import tempfile
from concurrent.futures import ThreadPoolExecutor

VERIF = os.path.dirname(os.path.dirname(os.path.abspath(__file__)))
REPO = os.environ.get("PYVC_REPO", "/repo")


def run_one(c):
    d = tempfile.mkdtemp(prefix="pyvc_canary_")
    try:
        shutil.copytree(os.path.join(REPO, "pymarkdown"), os.path.join(d, "pymarkdown"))
        for extra in ("newdocs", "docs"):
            if os.path.isdir(os.path.join(REPO, extra)):
                os.symlink(os.path.join(REPO, extra), os.path.join(d, extra))
        p = os.path.join(d, c["file"])
        s = open(p).read()
        if c["old"] not in s:
            return c["id"], "stale", "pattern not found in the current source"
        open(p, "w").write(s.replace(c["old"], c["new"], 1))
        env = dict(os.environ, PYVC_REPO=d, PYVC_EVIDENCE_DIR=os.path.join(d, "ev"), PYVC_REPLAY_DIR=os.path.join(d, "rp"))
        for k in ("PYVC_Z3_TIMEOUT_MS", "PYVC_CVC5_TIMEOUT_S"):      # canaries always run with the quick budgets
            env.pop(k, None)
        r = subprocess.run([os.path.join(VERIF, ".venv/bin/python"), "-m", "pyvc.run", c["property"], "--tier", "quick", "--jobs", "4"],
                           cwd=VERIF, env=env, capture_output=True, text=True)
        hit = [l for l in r.stdout.splitlines() if l.startswith("VIOLATION") and c["expect"].replace("::", "_") in l.replace("::", "_")]
        if r.returncode == 1 and hit:
            return c["id"], "killed", hit[0][:200]
        # the mutant may also leave the solver without a verdict on the very obligation it breaks: the check then exits 2
        # (UNDECIDED) naming the function -- the mutant is not accepted, which is what the canary is about
        und = [l for l in r.stdout.splitlines() if l.startswith("UNDECIDED") and c["expect"] in l]
        if r.returncode == 2 and und:
            return c["id"], "killed", "(undecided) " + und[0][:180]
        return c["id"], "survived", (r.stdout[-600:] + r.stderr[-300:])
    finally:
        shutil.rmtree(d, ignore_errors=True)


def main():
    cans = json.load(open(os.path.join(VERIF, "canaries.json")))
    only = sys.argv[1:]
    if only:
        cans = [c for c in cans if c["id"] in only or c["property"] in only]
    bad = 0
    with ThreadPoolExecutor(4) as ex:
        for cid, status, info in ex.map(run_one, cans):
            print(f"canary {cid}: {status}  {info if status != 'killed' else ''}")
            if status != "killed":
                bad += 1
    print(f"canaries: {len(cans) - bad}/{len(cans)} killed")
    return 3 if bad else 0


if __name__ == "__main__":
    sys.exit(main())
