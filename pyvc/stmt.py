"""
stmt.py -- statement execution: paths, loops with invariants, exceptions.
"""
from __future__ import annotations

import ast
from typing import Dict, List, Optional, Set

import z3

from . import front
from .exec import Out, Unsupported
from .spec import Loop
from .state import ExcVal, State
from .sym import (INTERN, NONE, TH, V, Val, exc_canon, exc_id, exc_is_sub, fresh, hint_kind, is_known_exception, mkI,
                  parse_hint, slen, tat, tlen, vbool, vint, vnone)

IntS = z3.IntSort()


def assigned_names(stmts: List[ast.stmt]) -> Set[str]:
    out: Set[str] = set()

    def tgt(t):
        if isinstance(t, ast.Name):
            out.add(t.id)
        elif isinstance(t, (ast.Tuple, ast.List)):
            for e in t.elts:
                tgt(e)
        elif isinstance(t, ast.Starred):
            tgt(t.value)

    for s in stmts:
        for n in ast.walk(s):
            if isinstance(n, ast.Assign):
                for t in n.targets:
                    tgt(t)
            elif isinstance(n, (ast.AugAssign, ast.AnnAssign)):
                tgt(n.target)
            elif isinstance(n, (ast.For, ast.comprehension)):
                tgt(n.target)
            elif isinstance(n, ast.NamedExpr):
                tgt(n.target)
            elif isinstance(n, ast.withitem) and n.optional_vars is not None:
                tgt(n.optional_vars)
            elif isinstance(n, ast.ExceptHandler) and n.name:
                out.add(n.name)
    return out


class StmtMixin:
    def exec_block(self, stmts: List[ast.stmt], st: State) -> List[Out]:
        states = [st]
        done: List[Out] = []
        for s in stmts:
            nxt = []
            for cur in states:
                for o in self.exec_stmt(s, cur):
                    if o.kind == "normal":
                        nxt.append(o.st)
                    else:
                        done.append(o)
            states = nxt
            self.paths = max(self.paths, len(states) + len(done))
            if len(states) + len(done) > self.max_paths:
                raise Unsupported(f"path limit {self.max_paths} exceeded", s)
            if not states:
                break
        return done + [Out("normal", s) for s in states]

    def exec_stmt(self, node: ast.stmt, st: State) -> List[Out]:
        m = getattr(self, "ex_" + type(node).__name__, None)
        if m is None:
            raise Unsupported(f"statement {type(node).__name__}", node)
        return m(node, st)

    # ------------------------------------------------------------ simple statements
    def ex_Pass(self, node, st):
        return [Out("normal", st)]

    def ex_Global(self, node, st):
        raise Unsupported("global", node)

    def ex_Import(self, node, st):
        return [Out("normal", st)]

    ex_ImportFrom = ex_Import

    def ex_Expr(self, node, st):
        if isinstance(node.value, ast.Constant):
            return [Out("normal", st)]  # docstring
        if front.is_logging_call(node.value):
            return [Out("normal", st)]
        outs = []
        for o in self.ev(node.value, st):
            outs.append(Out("normal", o.st) if o.kind == "val" else o)
        return outs

    def ex_Return(self, node, st):
        if node.value is None:
            return [Out("return", st, vnone())]
        outs = []
        for o in self.ev(node.value, st):
            outs.append(Out("return", o.st, o.val) if o.kind == "val" else o)
        return outs

    def ex_Break(self, node, st):
        return [Out("break", st)]

    def ex_Continue(self, node, st):
        return [Out("continue", st)]

    def ex_Assign(self, node, st):
        outs = []
        for o in self.ev(node.value, st):
            if o.kind == "raise":
                outs.append(o)
                continue
            cur = [o.st]
            failed = []
            for t in node.targets:
                nxt = []
                for s in cur:
                    for o2 in self.assign(s, t, o.val, node):
                        (nxt if o2.kind == "normal" else failed).append(o2.st if o2.kind == "normal" else o2)
                cur = nxt
            outs.extend(failed)
            outs.extend(Out("normal", s) for s in cur)
        return outs

    def ex_AnnAssign(self, node, st):
        if node.value is None:
            return [Out("normal", st)]
        outs = []
        th = parse_hint(node.annotation)
        for o in self.ev(node.value, st):
            if o.kind == "raise":
                outs.append(o)
                continue
            v = o.val
            if th is not None and v.z is not None and v.tup is None and (v.th is None or hint_kind(v.th) in (None,) or
                                                                         (v.th.args and all(a.name == "Any" for a in v.th.args))):
                lit_ = v.lit
                v = Val(v.z, th=th)
                v.lit = lit_
            elif th is not None and v.th is not None and v.th.name == "None":
                v = Val(v.z, th=th)
            outs.extend(self.assign(o.st, node.target, v, node))
        return outs

    def ex_AugAssign(self, node, st):
        load = ast.copy_location(self._as_load(node.target), node)
        binop = ast.BinOp(left=load, op=node.op, right=node.value)
        ast.copy_location(binop, node)
        ast.fix_missing_locations(binop)
        outs = []
        for o in self.ev(binop, st):
            if o.kind == "raise":
                outs.append(o)
            else:
                outs.extend(self.assign(o.st, node.target, o.val, node))
        return outs

    def _as_load(self, t):
        import copy

        n = copy.deepcopy(t)
        for x in ast.walk(n):
            if hasattr(x, "ctx"):
                x.ctx = ast.Load()
        return n

    def assign(self, st: State, target, v: Val, node) -> List[Out]:
        if isinstance(target, ast.Name):
            st.locals[target.id] = v
            if target.id in st.ghost:
                st.ghost[target.id] = v
            return [Out("normal", st)]
        if isinstance(target, (ast.Tuple, ast.List)):
            n = len(target.elts)
            if v.tup is not None:
                if len(v.tup) != n:
                    return [self.raise_out(st, "ValueError", node)]
                elems = v.tup
            else:
                th = v.th
                t = V.t(v.z)
                elems = []
                for i in range(n):
                    eth = th.args[i] if th is not None and hint_kind(th) == "tuple" and i < len(th.args) else None
                    elems.append(self.elem_typed(st, tat(t, i), eth))
            cur = [st]
            bad = []
            for e, tv in zip(target.elts, elems):
                nxt = []
                for s in cur:
                    for o in self.assign(s, e, tv, node):
                        if o.kind == "normal":
                            nxt.append(o.st)
                        else:
                            bad.append(o)
                cur = nxt
            return bad + [Out("normal", s) for s in cur]
        if isinstance(target, ast.Attribute):
            outs = []
            for o in self.ev(target.value, st):
                if o.kind == "raise":
                    outs.append(o)
                    continue
                base = o.val
                s = o.st
                if base.py is not None and base.z is None:
                    if base.py[0] == "class":
                        ci = base.py[1]
                        ca = front.find_class_attr(ci, target.attr)
                        owner = ca[0].name if ca else ci.name
                        s.hwrite(f"$static.{owner}.{target.attr}", z3.IntVal(0), self.to_z(s, v))
                        outs.append(Out("normal", s))
                        continue
                    if base.py[0] == "modattr":
                        # e.g. threading.local().value : model as a static cell
                        s.hwrite(f"$static.{base.py[1]}.{target.attr}", z3.IntVal(0), self.to_z(s, v))
                        outs.append(Out("normal", s))
                        continue
                    raise Unsupported("attribute store on static value", node)
                fld = target.attr
                if base.th is not None and base.th.strip_optional().name == "Namespace":
                    fld = "ns." + fld
                ci = self.class_of_val(s, base)
                if ci is not None:
                    ca = front.find_class_attr(ci, target.attr)
                    if ca is not None and not self.field_is_instance_written(ci, target.attr):
                        pass
                s.hwrite(fld, V.r(base.z), self.to_z(s, v))
                outs.append(Out("normal", s))
            return outs
        if isinstance(target, ast.Subscript):
            res, raises = self.ev_list([target.value, target.slice], st)
            outs = list(raises)
            for s, (base, idx) in res:
                k = hint_kind(base.th.strip_optional() if base.th else None)
                if k == "dict":
                    self.dict_store(s, base, idx, v)
                    outs.append(Out("normal", s))
                elif k == "list":
                    r = V.r(base.z)
                    n = s.hread("$llen", r)
                    i = self.norm_index(self.as_int(idx), n)
                    for s2, ok in self.branch(s, z3.And(0 <= i, i < n)):
                        if ok:
                            s2.hwrite("$litems", r, z3.Store(s2.hread("$litems", r), i, self.to_z(s2, v)))
                            outs.append(Out("normal", s2))
                        else:
                            outs.append(self.raise_out(s2, "IndexError", node))
                else:
                    raise Unsupported(f"subscript store on {base}", node)
            return outs
        raise Unsupported("assignment target", node)

    def ex_Delete(self, node, st):
        cur = [st]
        outs = []
        for t in node.targets:
            nxt = []
            for s in cur:
                if isinstance(t, ast.Name):
                    s.locals.pop(t.id, None)
                    nxt.append(s)
                    continue
                if not isinstance(t, ast.Subscript):
                    raise Unsupported("del target", node)
                res, raises = self.ev_list([t.value, t.slice], s)
                outs.extend(raises)
                for s2, (base, idx) in res:
                    k = hint_kind(base.th.strip_optional() if base.th else None)
                    if k == "dict":
                        r = V.r(base.z)
                        kz = self.to_z(s2, idx)
                        for s3, ok in self.branch(s2, z3.Select(s2.hread("$ddom", r), kz)):
                            if ok:
                                s3.hwrite("$ddom", r, z3.Store(s3.hread("$ddom", r), kz, False))
                                s3.hwrite("$dlen", r, s3.hread("$dlen", r) - 1)
                                nxt.append(s3)
                            else:
                                outs.append(self.raise_out(s3, "KeyError", node))
                    elif k == "list":
                        for o in self.list_delete(s2, base, idx, node):
                            (nxt.append(o.st) if o.kind == "normal" else outs.append(o))
                    else:
                        raise Unsupported("del on unknown container", node)
            cur = nxt
        return outs + [Out("normal", s) for s in cur]

    def ex_Assert(self, node, st):
        outs = []
        for o in self.ev(node.test, st):
            if o.kind == "raise":
                outs.append(o)
                continue
            for s2, ok in self.branch(o.st, self.truthy(o.st, o.val)):
                if ok:
                    outs.append(Out("normal", s2))
                else:
                    outs.append(self.raise_out(s2, "AssertionError", node))
        return outs

    def ex_Raise(self, node, st):
        if node.exc is None:
            if not st.handling:
                raise Unsupported("bare raise outside handler", node)
            return [Out("raise", st, st.handling[-1])]
        outs = []
        for o in self.ev(node.exc, st):
            if o.kind == "raise":
                outs.append(o)
                continue
            v = o.val
            if v.py is not None and v.py[0] == "class":
                v = self.construct_exception(o.st, v.py[1].name, [], {}, node)[0].val
            elif v.py is not None and v.py[0] == "builtin":
                v = self.construct_exception(o.st, v.py[1], [], {}, node)[0].val
            if v.py is None or v.py[0] != "exc":
                raise Unsupported("raise of non-exception value", node)
            o.st.note(f"raise {v.th} @{node.lineno}")
            outs.append(Out("raise", o.st, v))
        return outs

    # ------------------------------------------------------------ control flow
    def ex_If(self, node, st):
        outs = []
        for o in self.ev(node.test, st):
            if o.kind == "raise":
                outs.append(o)
                continue
            for s2, tv in self.branch(o.st, self.truthy(o.st, o.val)):
                s2.note(f"if@{node.lineno}={'T' if tv else 'F'}")
                outs.extend(self.exec_block(node.body if tv else node.orelse, s2))
        return outs

    def handler_matches(self, st: State, h: ast.ExceptHandler, exc: Val):
        e: ExcVal = exc.py[1]
        if h.type is None:
            return z3.BoolVal(True)
        types = h.type.elts if isinstance(h.type, ast.Tuple) else [h.type]
        conds = []
        for t in types:
            name = t.id if isinstance(t, ast.Name) else t.attr
            if not is_known_exception(name):
                raise Unsupported(f"except clause for unknown exception class {name}", h)
            conds.append(exc_is_sub(e.cls_expr(), name))
        return z3.simplify(z3.Or(conds))

    def ex_Try(self, node, st):
        body_outs = self.exec_block(node.body, st)
        after_handlers: List[Out] = []
        for o in body_outs:
            if o.kind == "normal":
                if node.orelse:
                    after_handlers.extend(self.exec_block(node.orelse, o.st))
                else:
                    after_handlers.append(o)
            elif o.kind == "raise":
                pending = [(o.st, o.val)]
                for h in node.handlers:
                    nxt = []
                    for s, exc in pending:
                        for s2, m in self.branch(s, self.handler_matches(s, h, exc)):
                            if m:
                                if h.name:
                                    s2.locals[h.name] = exc
                                s2.handling.append(exc)
                                s2.note(f"except@{h.lineno}")
                                for ho in self.exec_block(h.body, s2):
                                    if ho.st.handling:
                                        ho.st.handling.pop()
                                    after_handlers.append(ho)
                            else:
                                nxt.append((s2, exc))
                    pending = nxt
                for s, exc in pending:
                    after_handlers.append(Out("raise", s, exc))
            else:
                after_handlers.append(o)
        if not node.finalbody:
            return after_handlers
        outs = []
        for o in after_handlers:
            for fo in self.exec_block(node.finalbody, o.st):
                if fo.kind == "normal":
                    outs.append(Out(o.kind, fo.st, o.val))
                else:
                    outs.append(fo)  # finally overrides
        return outs

    def ex_With(self, node, st):
        # Context managers: evaluated via contracts of the manager call; __exit__ is modelled by the
        # contract registered under "<callee>.__exit__" if present (e.g. NamedTemporaryFile), else a no-op.
        if len(node.items) != 1:
            raise Unsupported("multi-item with", node)
        item = node.items[0]
        outs = []
        for o in self.ev(item.context_expr, st):
            if o.kind == "raise":
                outs.append(o)
                continue
            s = o.st
            cm = o.val
            if item.optional_vars is not None:
                for a in self.assign(s, item.optional_vars, cm, node):
                    if a.kind != "normal":
                        outs.append(a)
            exit_c = None
            if isinstance(item.context_expr, ast.Call):
                exit_c = self.registry.get(self.with_exit_key(item.context_expr, s))
            for bo in self.exec_block(node.body, s):
                if exit_c is not None:
                    for eo in self.apply_contract(bo.st, exit_c, cm, [], {}, node, exit_c.key):
                        if eo.kind == "val":
                            outs.append(Out(bo.kind, eo.st, bo.val))
                        else:
                            outs.append(eo)
                else:
                    outs.append(bo)
        return outs

    def with_exit_key(self, call: ast.Call, st: State) -> str:
        txt = self.src_text(call.func)
        return txt + ".__exit__"

    # ------------------------------------------------------------ loops
    def loop_contract(self, st: State, node) -> Loop:
        fn = st.func.node if st.func is not None else None
        ordinal = -1
        if fn is not None:
            k = 0
            for n in ast.walk(fn):
                if isinstance(n, (ast.For, ast.While)):
                    pass
            loops = [n for n in self._loops_in_order(fn)]
            for i, n in enumerate(loops):
                if n is node:
                    ordinal = i
        c = st.contract
        if c is not None and c.lets and st.depth == 0 and not self.probing:
            self.define_lets(c, st, st, st.func, f"loop{ordinal}")
        if c is not None and ordinal in c.loops:
            return c.loops[ordinal]
        return Loop()

    def _loops_in_order(self, fn):
        out = []

        def visit(n):
            for ch in ast.iter_child_nodes(n):
                if isinstance(ch, (ast.FunctionDef, ast.Lambda, ast.ClassDef)):
                    continue
                if isinstance(ch, (ast.For, ast.While)):
                    out.append(ch)
                visit(ch)

        visit(fn)
        return out

    def probe_writes(self, body: List[ast.stmt], st: State, extra_locals: Dict[str, Val], prelude=None) -> Set[str]:
        """Find which heap fields / cells / ghost scalars the body can write.
        Pass 1 runs the body from a fully havoc'd heap (every path is feasible): the set W of written fields
        over-approximates any iteration.  Pass 2 havocs only W, so that references computed from fields outside W
        are recognisably the same in every iteration (cell-wise instead of array-wise havoc)."""
        w1 = self._probe_once(body, st, extra_locals, prelude, None)
        w2 = self._probe_once(body, st, extra_locals, prelude, w1)
        return w1 | w2

    def _probe_once(self, body, st: State, extra_locals, prelude, only_fields) -> Set[str]:
        from . import sym as _sym

        p = st.fork()
        p.written = set()
        p.written_cells = {}
        self._probe_start_counter = _sym._counter[0]
        for f in list(p.heap.keys()):
            if only_fields is None or f in only_fields:
                p.heap[f] = fresh("P_" + f, p.heap[f].sort())
        for n in assigned_names(body):
            if n in p.locals:
                old = p.locals[n]
                if old.z is not None:
                    p.locals[n] = self.typed(p, fresh("p_" + n), old.th)
        p.locals.update(extra_locals)
        p.pc = [] if only_fields is None else [c for c in p.pc]
        self.probing += 1
        try:
            ghost_before = {k: v.z for k, v in p.ghost.items()}
            if prelude is not None:
                prelude(p)
            pouts = self.exec_block(body, p)
            ghosts = set()
            for po in pouts:
                for k, v in po.st.ghost.items():
                    b = ghost_before.get(k)
                    if b is None or v.z is None or not b.eq(v.z):
                        ghosts.add(k)
            self.last_probe_ghosts = ghosts | (getattr(self, "last_probe_ghosts", set()) if only_fields is not None else set())
        finally:
            self.probing -= 1
        w = set(p.written)
        self.last_probe_cells = {}
        self.last_probe_fresh = set()
        self.last_probe_allrefs = {f: [r for r in refs if r is not None] for f, refs in p.written_cells.items()}
        if only_fields is not None:
            for f, refs in p.written_cells.items():
                kinds = [("none" if r is None else ("stable" if self.term_is_stable(r) else ("fresh" if self.term_is_fresh(r, st) else "other")))
                         for r in refs]
                if all(k in ("stable", "fresh") for k in kinds):
                    uniq = []
                    for r, k in zip(refs, kinds):
                        if k == "stable" and not any(r.eq(u) for u in uniq):
                            uniq.append(r)
                    self.last_probe_cells[f] = uniq
                    if "fresh" in kinds:
                        self.last_probe_fresh.add(f)
            if st.written_cells is not None:
                for f, refs in p.written_cells.items():
                    st.written_cells.setdefault(f, []).extend(refs if f in self.last_probe_cells else [None])
        return w

    def term_is_fresh(self, t, st: State) -> bool:
        """t denotes an object allocated inside the probed body: loop-start base + k (k >= allocations so far), or
        an allocation base introduced during the probe (alloc!N [+ k])."""
        t = z3.simplify(t)
        d = z3.simplify(t - st.alloc_base)
        if z3.is_int_value(d) and d.as_long() >= st.nalloc:
            return True
        core = t
        if z3.is_add(t) and len(t.children()) == 2:
            a, b = t.children()
            if z3.is_int_value(a):
                core = b
            elif z3.is_int_value(b):
                core = a
        if not (z3.is_const(core) and core.decl().kind() == z3.Z3_OP_UNINTERPRETED and core.decl().name().startswith("alloc!")):
            return False
        # only allocation bases introduced while probing the body (they are >= the bound at the loop head)
        try:
            return int(core.decl().name().split("!")[1]) > getattr(self, "_probe_start_counter", 10 ** 12)
        except ValueError:
            return False

    def term_is_stable(self, t) -> bool:
        """No symbol of t was introduced while probing (pass 2: only written fields and assigned locals are fresh)."""
        seen = set()
        work = [t]
        start = getattr(self, "_probe_start_counter", -1)
        while work:
            x = work.pop()
            if x.get_id() in seen:
                continue
            seen.add(x.get_id())
            if z3.is_const(x) and x.decl().kind() == z3.Z3_OP_UNINTERPRETED:
                n = x.decl().name()
                if "!" in n:
                    try:
                        if int(n.rsplit("!", 1)[1]) > start:
                            return False
                    except ValueError:
                        return False
            work.extend(x.children())
        return True

    def havoc_for_loop(self, st: State, body: List[ast.stmt], lp: Loop, extra: Dict[str, Val], skip: Set[str] = frozenset(), prelude=None) -> None:
        self.last_probe_cells = {}
        fields = set(lp.modifies_fields) if lp.modifies_fields is not None else self.probe_writes(body, st, extra, prelude)
        cells = self.last_probe_cells
        from .state import field_sort
        import os as _os

        if _os.environ.get("PYVC_DEBUG_PROBE"):
            print("PROBE", self.cur_key, getattr(body[0], "lineno", 0), sorted(fields), {k: len(v) for k, v in cells.items()})

        fresh_fields = getattr(self, "last_probe_fresh", set())
        bound = st.alloc_bound()
        for f in fields:
            if f in cells:
                if f in fresh_fields:
                    # objects allocated by earlier iterations may have any content; everything older is untouched
                    before = st.harr(f)
                    st.havoc_field(f)
                    rq = fresh("rq", IntS)
                    st.assume(z3.ForAll([rq], z3.Implies(rq < bound, z3.Select(st.heap[f], rq) == z3.Select(before, rq))))
                for r in cells[f]:
                    rs = z3.simplify(r)
                    if not z3.is_int_value(rs):
                        st.assume(rs >= 0)  # a reference computed by the program denotes a program object (ghost objects are < 0)
                    st.hwrite(f, r, fresh("lc_" + f, field_sort(f).range()))
                    if f in ("$llen", "$dlen"):
                        st.assume(st.hread(f, r) >= 0)
            else:
                before = st.harr(f)
                st.havoc_field(f)
                if f.startswith("$") and not f.startswith("$static"):
                    # ghost containers change only through ghost effects, whose target references are explicit
                    explicit = getattr(self, "last_probe_allrefs", {}).get(f, [])
                    for g in st.ghost.values():
                        if g.z is not None and hint_kind(g.th) in ("list", "dict", "set"):
                            gr = V.r(g.z)
                            if not any(z3.simplify(x).eq(z3.simplify(gr)) for x in explicit):
                                st.heap[f] = z3.Store(st.heap[f], gr, z3.Select(before, gr))
        if fresh_fields:
            st.bump_alloc()
        if lp.modifies_fields is None:
            for g in getattr(self, "last_probe_ghosts", set()):
                gv = st.ghost.get(g)
                if gv is not None and gv.z is not None and hint_kind(gv.th) not in ("list", "dict", "set"):
                    st.ghost[g] = self.typed(st, fresh("lg_" + g), gv.th)
        self.last_probe_ghosts = set()
        for n in assigned_names(body):
            if n in skip:
                continue
            old = st.locals.get(n)
            if old is None:
                continue
            if old.tup is not None:
                st.locals[n] = Val(tup=[self.typed(st, fresh("lv_" + n), e.th) if e.z is not None else e for e in old.tup])
            elif old.z is not None:
                th = old.th
                if th is not None and th.name == "None":
                    th = None
                st.locals[n] = self.typed(st, fresh("lv_" + n), self.widen_hint(n, th, body, st))
            if n in st.ghost:
                st.ghost[n] = st.locals[n]
        if st.written is not None:
            st.written |= fields

    def widen_hint(self, name: str, th: Optional[TH], body, st: State) -> Optional[TH]:
        """The declared annotation of a local (if any) wins over the hint of its entry value."""
        if st.contract is not None and name in st.contract.types:
            return parse_hint(st.contract.types[name])
        fn = st.func.node if st.func is not None else None
        if fn is not None:
            for n in ast.walk(fn):
                if isinstance(n, ast.AnnAssign) and isinstance(n.target, ast.Name) and n.target.id == name:
                    return parse_hint(n.annotation)
        if th is not None and hint_kind(th) in ("int", "bool", "str"):
            # an un-annotated local keeps its entry kind only if every assignment in the body is of that kind;
            # be conservative: Optional
            return th
        return th

    def check_invariant(self, st: State, lp: Loop, where: str, node, env_extra: Dict[str, Val]) -> None:
        for i, inv in enumerate(lp.invariant):
            g = self.spec_bool(st, inv, dict(st.locals, **env_extra), st.func, old=st.old)
            self.oblige(f"inv.{where}[{i}]@{node.lineno}", st, g, node.lineno, "inv", inv)

    def assume_invariant(self, st: State, lp: Loop, env_extra: Dict[str, Val]) -> None:
        for inv in lp.invariant:
            st.assume(self.spec_bool(st, inv, dict(st.locals, **env_extra), st.func, old=st.old))

    def ex_While(self, node, st):
        if node.orelse:
            raise Unsupported("while-else", node)
        lp = self.loop_contract(st, node)
        self.check_invariant(st, lp, "entry", node, {})
        s = st.fork()
        self.havoc_for_loop(s, node.body, lp, {})
        self.assume_invariant(s, lp, {})
        if lp.invariant:
            self.oblige(f"cover.loop@{node.lineno}", s, z3.BoolVal(False), node.lineno, "cover", "loop invariant is satisfiable")
        outs: List[Out] = []
        var0 = None
        if lp.variant:
            var0 = self.as_int(self.eval_spec(s, lp.variant, dict(s.locals), s.func, old=s.old))
        for o in self.ev(node.test, s):
            if o.kind == "raise":
                outs.append(o)
                continue
            for s2, tv in self.branch(o.st, self.truthy(o.st, o.val)):
                if not tv:
                    s2.note(f"while@{node.lineno} exit")
                    outs.append(Out("normal", s2))
                    continue
                s2.note(f"while@{node.lineno} iter")
                if var0 is not None:
                    self.oblige(f"variant.nonneg@{node.lineno}", s2, var0 >= 0, node.lineno, "variant", lp.variant)
                for bo in self.exec_block(node.body, s2):
                    if bo.kind in ("normal", "continue"):
                        self.check_invariant(bo.st, lp, "step", node, {})
                        if var0 is not None:
                            v1 = self.as_int(self.eval_spec(bo.st, lp.variant, dict(bo.st.locals), bo.st.func, old=bo.st.old))
                            self.oblige(f"variant.decr@{node.lineno}", bo.st, v1 < var0, node.lineno, "variant", lp.variant)
                    elif bo.kind == "break":
                        outs.append(Out("normal", bo.st))
                    else:
                        outs.append(bo)
        return outs

    def ex_For(self, node, st):
        if node.orelse:
            raise Unsupported("for-else", node)
        outs: List[Out] = []
        for o in self.ev(node.iter, st):
            if o.kind == "raise":
                outs.append(o)
                continue
            outs.extend(self.for_over(node, o.st, o.val))
        return outs

    def for_over(self, node: ast.For, st: State, it: Val) -> List[Out]:
        lp = self.loop_contract(st, node)
        # a list built by a literal and not touched since: iterate its original elements (unrolled)
        if it.tup is None and it.lit is not None and it.z is not None:
            r = V.r(it.z)
            same = z3.is_int_value(z3.simplify(st.hread("$llen", r))) and z3.simplify(st.hread("$llen", r)).as_long() == len(it.lit)
            if same:
                items = st.hread("$litems", r)
                for i_, e_ in enumerate(it.lit):
                    try:
                        ez = self.to_z(st, e_)
                    except Unsupported:
                        same = False
                        break
                    if not z3.simplify(z3.Select(items, i_)).eq(z3.simplify(ez)):
                        same = False
                        break
            if same:
                it = Val(tup=list(it.lit))
        # static tuple / literal: unroll
        if it.tup is not None:
            cur = [st]
            outs: List[Out] = []
            for e in it.tup:
                nxt = []
                for s in cur:
                    for a in self.assign(s, node.target, e, node):
                        if a.kind != "normal":
                            outs.append(a)
                            continue
                        for bo in self.exec_block(node.body, a.st):
                            if bo.kind in ("normal", "continue"):
                                nxt.append(bo.st)
                            elif bo.kind == "break":
                                outs.append(Out("normal", bo.st))
                            else:
                                outs.append(bo)
                cur = nxt
            return outs + [Out("normal", s) for s in cur]
        seq = self.iter_view(st, it, node)
        if lp.frozen_iter:
            # the loop sees the list as it was when the loop started (assumption recorded in the evidence)
            from .spec import Assumed as _A

            self.used_assumed[f"loop@{node.lineno} of {self.cur_key}: iterated list is not mutated by the body"] = _A(why=lp.frozen_iter)
            snap = st.fork()
            live = seq
            seq = {"len": lambda s_, _l=live, _sn=snap: _l["len"](_sn), "get": lambda s_, i_, _l=live, _sn=snap: self._frozen_get(_l, _sn, s_, i_)}
            if "keys" in live:
                seq["keys"] = live["keys"]
        idx_name = lp.index or f"$i{node.lineno}"
        if lp.seq_name and "keys" in seq:
            # a specification-only list at a negative reference: it cannot alias any program object
            from .sym import CLS_LIST, clsof

            gr = z3.IntVal(-(1000 + node.lineno))
            st.hwrite("$litems", gr, seq["keys"])
            st.hwrite("$llen", gr, seq["len"](st))
            kl = Val(V.R(gr), th=TH("List", [TH("Any")]))
            st.spec_env = dict(st.spec_env, **{lp.seq_name: kl})
        elif lp.seq_name and hint_kind(it.th.strip_optional() if it.th is not None else None) == "list":
            # the iterated list itself (e.g. the result of sorted(...)) under a specification-only name
            st.spec_env = dict(st.spec_env, **{lp.seq_name: it})
        i0 = vint(0)
        self.check_invariant(st, lp, "entry", node, {idx_name: i0})
        s = st.fork()
        skip = set()

        def prelude(p):
            pi = fresh("pi", IntS)
            p.assume(pi >= 0)
            p.spec_env = dict(p.spec_env, **{lp.index or f"$i{node.lineno}": vint(pi)})
            for a in self.assign(p, node.target, seq["get"](p, pi), node):
                pass

        self.havoc_for_loop(s, node.body, lp, {}, skip, prelude)
        i = fresh("i", IntS)
        iv = vint(i)
        n = seq["len"](s)
        s.assume(i >= 0)
        s.assume(i <= n)
        self.assume_invariant(s, lp, {idx_name: iv})
        if lp.invariant:
            self.oblige(f"cover.loop@{node.lineno}", s, z3.BoolVal(False), node.lineno, "cover", "loop invariant is satisfiable")
        outs = []
        for s2, more in self.branch(s, i < n):
            if not more:
                s2.note(f"for@{node.lineno} exit")
                s2.locals.pop(idx_name, None)
                outs.append(Out("normal", s2))
                continue
            s2.note(f"for@{node.lineno} iter")
            elem = seq["get"](s2, i)
            i1 = vint(z3.simplify(i + 1))
            for a in self.assign(s2, node.target, elem, node):
                if a.kind != "normal":
                    outs.append(a)
                    continue
                a.st.spec_env = dict(a.st.spec_env, **{idx_name: iv})
                for bo in self.exec_block(node.body, a.st):
                    if bo.kind in ("normal", "continue"):
                        self.check_invariant(bo.st, lp, "step", node, {idx_name: i1})
                    elif bo.kind == "break":
                        outs.append(Out("normal", bo.st))
                    else:
                        outs.append(bo)
        return outs

    def _frozen_get(self, live, snap: State, cur: State, i):
        npc = len(snap.pc)
        v = live["get"](snap, i)
        for f in snap.pc[npc:]:
            cur.assume(f)
        del snap.pc[npc:]
        return v

    def iter_view(self, st: State, it: Val, node):
        """A sequence view {len(st), get(st, i)} of an iterable value."""
        if it.py is not None and it.py[0] == "iter":
            return it.py[1]
        th = it.th.strip_optional() if it.th is not None else None
        k = hint_kind(th)
        if k == "list":
            r = V.r(it.z)
            eth = th.args[0] if th.args and th.args[0].name != "Any" else None
            return {"len": lambda s: s.hread("$llen", r),
                    "get": lambda s, i: self.elem_typed(s, z3.Select(s.hread("$litems", r), i), eth)}
        if k in ("set", "dict"):
            return self.keys_view(st, it, node)
        if k == "str":
            sid = V.s(it.z)
            from .sym import sat, str_char as ch

            def get(s, i):
                c = ch(sat(sid, i))
                s.assume(slen(c) == 1)
                s.assume(sat(c, 0) == sat(sid, i))
                return Val(V.S(c), th=TH("str"))

            return {"len": lambda s: slen(sid), "get": get}
        raise Unsupported(f"iteration over {it}", node)

    def keys_view(self, st: State, it: Val, node):
        """Iteration over a set/dict: an arbitrary duplicate-free enumeration of the key set."""
        th = it.th.strip_optional()
        r = V.r(it.z)
        dom = st.hread("$ddom", r)
        n = st.hread("$dlen", r)
        ks = fresh("keys", z3.ArraySort(IntS, V))
        pos = z3.Function(f"keypos!{ks}", V, IntS)   # `ks` is a fresh, uniquely named constant (never derive names from id())
        a, b = fresh("a", IntS), fresh("b", IntS)
        x = fresh("x", V)
        st.assume(z3.ForAll([a], z3.Implies(z3.And(0 <= a, a < n), z3.And(z3.Select(dom, z3.Select(ks, a)), pos(z3.Select(ks, a)) == a))))
        st.assume(z3.ForAll([x], z3.Implies(z3.Select(dom, x), z3.And(0 <= pos(x), pos(x) < n, z3.Select(ks, pos(x)) == x))))
        kth = th.args[0] if th.args and th.args[0].name != "Any" else None
        return {"len": lambda s: n, "get": lambda s, i: self.elem_typed(s, z3.Select(ks, i), kth), "keys": ks, "dom": dom, "n": n}
