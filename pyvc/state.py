"""
state.py -- symbolic state: locals, heap (one SMT array per field), path condition, ghost variables.
"""
from __future__ import annotations

from typing import Any, Dict, List, Optional

import z3

from .sym import (ArrIV, BoolS, IntS, V, Val, fresh)

SPECIAL_FIELDS = {
    "$llen": z3.ArraySort(IntS, IntS),
    "$litems": z3.ArraySort(IntS, ArrIV),
    "$ddom": z3.ArraySort(IntS, z3.ArraySort(V, BoolS)),
    "$dval": z3.ArraySort(IntS, z3.ArraySort(V, V)),
    "$dlen": z3.ArraySort(IntS, IntS),
}


def field_sort(name: str):
    return SPECIAL_FIELDS.get(name, ArrIV)


class ExcVal:
    """A raised exception: symbolic class id + a few named payload values."""

    def __init__(self, cls, fields: Optional[Dict[str, Val]] = None, origin: str = "", implicit: bool = False):
        self.cls = cls  # z3 Int expr or python int
        self.fields = fields or {}
        self.origin = origin
        self.implicit = implicit

    def cls_expr(self):
        return self.cls if isinstance(self.cls, z3.ExprRef) else z3.IntVal(self.cls)

    def __repr__(self):
        return f"ExcVal({self.cls}, {self.origin})"


class State:
    def __init__(self):
        self.locals: Dict[str, Val] = {}
        self.heap: Dict[str, z3.ExprRef] = {}
        self.heap0: Dict[str, z3.ExprRef] = {}  # initial arrays (shared by all forks)
        self.pc: List[z3.BoolRef] = []
        self.ghost: Dict[str, Val] = {}
        self.alloc0 = z3.Int("alloc0")  # allocation bound at function entry (constant)
        self.alloc_base = self.alloc0  # current symbolic base; refs handed out are alloc_base + k
        self.nalloc = 0
        self.events: List[Dict[str, Any]] = []
        self.notes: List[str] = []
        self.func = None  # FuncInfo whose body is being executed (for name resolution)
        self.contract = None  # Contract of the function being executed (types, loops, calls)
        self.depth = 0
        self.pure = False
        self.old: Optional["State"] = None  # entry state for old(...)
        self.written: Optional[set] = None  # when probing: set of heap fields written
        self.handling: List[Val] = []  # stack of exceptions being handled (for bare `raise`)
        self.spec_env: Dict[str, Val] = {}
        self.class_scope = None
        self.written_cells = None

    def fork(self) -> "State":
        s = State.__new__(State)
        s.locals = dict(self.locals)
        s.heap = dict(self.heap)
        s.heap0 = self.heap0
        s.pc = list(self.pc)
        s.ghost = dict(self.ghost)
        s.alloc0 = self.alloc0
        s.alloc_base = self.alloc_base
        s.nalloc = self.nalloc
        s.events = list(self.events)
        s.notes = list(self.notes)
        s.func = self.func
        s.contract = self.contract
        s.depth = self.depth
        s.pure = self.pure
        s.old = self.old
        s.written = self.written
        s.handling = list(self.handling)
        s.spec_env = self.spec_env
        s.class_scope = self.class_scope
        s.written_cells = self.written_cells
        if getattr(self, "now_state", None) is not None:
            s.now_state = self.now_state
        return s

    # ------------------------------------------------------------ heap
    def harr(self, field: str):
        a = self.heap.get(field)
        if a is None:
            a = self.heap0.get(field)
            if a is None:
                a = z3.Const("H0_" + field, field_sort(field))
                self.heap0[field] = a
            self.heap[field] = a
        return a

    def hread(self, field: str, r):
        return z3.Select(self.harr(field), r)

    def hwrite(self, field: str, r, v, guard=None) -> None:
        cur = self.harr(field)
        new = z3.Store(cur, r, v)
        self.heap[field] = new if guard is None else z3.If(guard, new, cur)
        if self.written is not None:
            self.written.add(field)
            if self.written_cells is not None:
                self.written_cells.setdefault(field, []).append(r)

    def havoc_field(self, field: str) -> None:
        self.harr(field)
        self.heap[field] = fresh("H_" + field, field_sort(field))
        if self.written is not None:
            self.written.add(field)
            if self.written_cells is not None:
                self.written_cells.setdefault(field, []).append(None)

    def alloc_bound(self):
        return self.alloc_base + self.nalloc

    _spec_refs = [0]

    def new_ref(self):
        if self.pure:
            # objects created while evaluating a specification (e.g. the list a spec-level split() denotes) are not program
            # objects: they get unique negative references and never consume program allocation numbers
            State._spec_refs[0] += 1
            return z3.IntVal(-(100000 + State._spec_refs[0]))
        r = self.alloc_base + self.nalloc
        self.nalloc += 1
        return z3.simplify(r)

    def bump_alloc(self) -> None:
        """An opaque callee may have allocated any number of objects."""
        nb = fresh("alloc", z3.IntSort())
        self.pc.append(nb >= self.alloc_bound())
        self.alloc_base = nb
        self.nalloc = 0

    def assume(self, f) -> None:
        if z3.is_true(f):
            return
        self.pc.append(f)

    def note(self, s: str) -> None:
        self.notes.append(s)
