"""
front.py -- locate and normalise the REAL functions of /repo.

Every run re-reads the files from the repository working tree (REPO_ROOT, default /repo),
parses them with `ast`, and hands the *actual* function definitions to the symbolic
executor.  Nothing is copied, nothing is hand-translated.  What the extraction drops,
exactly (see DESIGN.md 3.2):

  1. docstrings and type annotations (annotations are used as sort hints only);
  2. expression statements that are calls on a logger object (POGGER.*, LOGGER.*,
     logging.getLogger(...).*): their arguments are assumed pure and total;
  3. typing.cast(T, e) is read as e.

Name mangling of `__x` identifiers inside a class body is applied the way CPython does.
"""
from __future__ import annotations

import ast
import hashlib
import os
from dataclasses import dataclass, field
from typing import Dict, List, Optional, Tuple

REPO_ROOT = os.environ.get("PYVC_REPO", "/repo")

LOGGER_NAMES = {"POGGER", "LOGGER"}


def is_logging_call(node: ast.AST) -> bool:
    """True for `POGGER.x(...)`, `LOGGER.x(...)`, `logging.getLogger(...).x(...)`."""
    if not isinstance(node, ast.Call):
        return False
    f = node.func
    if isinstance(f, ast.Attribute):
        base = f.value
        if isinstance(base, ast.Name) and base.id in LOGGER_NAMES:
            return True
        if (
            isinstance(base, ast.Call)
            and isinstance(base.func, ast.Attribute)
            and isinstance(base.func.value, ast.Name)
            and base.func.value.id == "logging"
            and base.func.attr == "getLogger"
        ):
            return True
    return False


def mangle(name: str, cls: Optional[str]) -> str:
    if cls and name.startswith("__") and not name.endswith("__"):
        return "_" + cls.lstrip("_") + name
    return name


class _Mangler(ast.NodeTransformer):
    def __init__(self, cls: str):
        self.cls = cls

    def visit_Attribute(self, node: ast.Attribute):
        self.generic_visit(node)
        node.attr = mangle(node.attr, self.cls)
        return node

    def visit_Name(self, node: ast.Name):
        node.id = mangle(node.id, self.cls)
        return node

    def visit_FunctionDef(self, node: ast.FunctionDef):
        # nested defs inside methods keep their own names, but bodies are mangled
        self.generic_visit(node)
        return node

    def visit_ClassDef(self, node):  # nested class: do not descend with outer name
        return node


@dataclass
class FuncInfo:
    module: "ModuleInfo"
    cls: Optional["ClassInfo"]
    node: ast.FunctionDef
    name: str  # mangled name as CPython sees it
    decorators: List[str]

    @property
    def key(self) -> str:
        q = f"{self.cls.name}.{self.node.name}" if self.cls else self.node.name
        return f"{self.module.relpath}::{q}"

    @property
    def is_static(self) -> bool:
        return "staticmethod" in self.decorators

    @property
    def is_classmethod(self) -> bool:
        return "classmethod" in self.decorators

    @property
    def is_property(self) -> bool:
        return "property" in self.decorators

    def source_hash(self) -> str:
        return hashlib.sha256(ast.dump(self.node).encode()).hexdigest()[:16]

    @property
    def lineno(self) -> int:
        return self.node.lineno


@dataclass
class ClassInfo:
    module: "ModuleInfo"
    node: ast.ClassDef
    name: str
    bases: List[str]
    methods: Dict[str, FuncInfo] = field(default_factory=dict)
    class_attrs: Dict[str, ast.expr] = field(default_factory=dict)  # mangled name -> value expr
    annotations: Dict[str, ast.expr] = field(default_factory=dict)  # dataclass-style field declarations
    decorators: List[str] = field(default_factory=list)
    _field_types: Optional[Dict[str, ast.expr]] = None

    def field_types(self) -> Dict[str, ast.expr]:
        """field name (mangled) -> annotation expr, inferred from the class source."""
        if self._field_types is not None:
            return self._field_types
        ft: Dict[str, ast.expr] = dict(self.annotations)
        for m in self.methods.values():
            params: Dict[str, ast.expr] = {}
            for a in m.node.args.args + m.node.args.kwonlyargs:
                if a.annotation is not None:
                    params[a.arg] = a.annotation
            for n in ast.walk(m.node):
                if isinstance(n, ast.AnnAssign) and isinstance(n.target, ast.Attribute):
                    if isinstance(n.target.value, ast.Name) and n.target.value.id == "self":
                        ft.setdefault(n.target.attr, n.annotation)
                elif isinstance(n, ast.Assign) and len(n.targets) == 1:
                    t = n.targets[0]
                    if (
                        isinstance(t, ast.Attribute)
                        and isinstance(t.value, ast.Name)
                        and t.value.id == "self"
                        and t.attr not in ft
                    ):
                        v = n.value
                        if isinstance(v, ast.Name) and v.id in params and m.node.name == "__init__":
                            ft[t.attr] = params[v.id]
                        elif isinstance(v, ast.Constant):
                            if isinstance(v.value, bool):
                                ft[t.attr] = ast.Name(id="bool")
                            elif isinstance(v.value, int):
                                ft[t.attr] = ast.Name(id="int")
                            elif isinstance(v.value, str):
                                ft[t.attr] = ast.Name(id="str")
                        elif isinstance(v, ast.Call) and isinstance(v.func, ast.Name) and v.func.id[:1].isupper():
                            ft[t.attr] = ast.Name(id=v.func.id)
        self._field_types = ft
        return ft


@dataclass
class ModuleInfo:
    relpath: str
    tree: ast.Module
    source: str
    classes: Dict[str, ClassInfo] = field(default_factory=dict)
    functions: Dict[str, FuncInfo] = field(default_factory=dict)
    imports: Dict[str, Tuple[str, Optional[str]]] = field(default_factory=dict)  # local -> (module, symbol)
    globals: Dict[str, ast.expr] = field(default_factory=dict)


_CACHE: Dict[str, ModuleInfo] = {}


def _decorator_names(node: ast.FunctionDef) -> List[str]:
    out = []
    for d in node.decorator_list:
        if isinstance(d, ast.Name):
            out.append(d.id)
        elif isinstance(d, ast.Attribute):
            out.append(d.attr)
        elif isinstance(d, ast.Call):
            f = d.func
            out.append(f.id if isinstance(f, ast.Name) else getattr(f, "attr", "?"))
    return out


def load_module(relpath: str) -> ModuleInfo:
    """relpath is relative to REPO_ROOT, e.g. 'pymarkdown/main.py'."""
    key = os.path.join(REPO_ROOT, relpath)
    if key in _CACHE:
        return _CACHE[key]
    with open(key, "rt", encoding="utf-8") as f:
        src = f.read()
    tree = ast.parse(src, filename=key)
    mi = ModuleInfo(relpath=relpath, tree=tree, source=src)
    top = list(tree.body)
    for node in tree.body:
        if isinstance(node, ast.If):  # e.g. `if TYPE_CHECKING:` imports
            top.extend(n for n in node.body if isinstance(n, (ast.Import, ast.ImportFrom)))
    for node in top:
        if isinstance(node, ast.ImportFrom) and node.module:
            for a in node.names:
                mi.imports[a.asname or a.name] = (node.module, a.name)
        elif isinstance(node, ast.Import):
            for a in node.names:
                mi.imports[a.asname or a.name.split(".")[0]] = (a.name, None)
        elif isinstance(node, ast.ClassDef):
            bases = []
            for b in node.bases:
                if isinstance(b, ast.Name):
                    bases.append(b.id)
                elif isinstance(b, ast.Attribute):
                    bases.append(b.attr)
            ci = ClassInfo(module=mi, node=node, name=node.name, bases=bases)
            _Mangler(node.name).generic_visit(node)  # mangle in place, whole class body
            # @dataclass: an annotated name in the class body declares an INSTANCE field (its value is only the default the generated
            # __init__ uses), not a class constant
            is_dataclass = "dataclass" in _decorator_names(node)
            for sub in node.body:
                if isinstance(sub, (ast.FunctionDef, ast.AsyncFunctionDef)):
                    decos = _decorator_names(sub)
                    if "setter" in decos:
                        continue
                    fi = FuncInfo(module=mi, cls=ci, node=sub, name=mangle(sub.name, node.name), decorators=decos)
                    ci.methods[fi.name] = fi
                elif isinstance(sub, ast.Assign) and len(sub.targets) == 1 and isinstance(sub.targets[0], ast.Name):
                    ci.class_attrs[mangle(sub.targets[0].id, node.name)] = sub.value
                elif isinstance(sub, ast.AnnAssign) and isinstance(sub.target, ast.Name) and sub.value is not None:
                    ci.class_attrs[mangle(sub.target.id, node.name)] = sub.value
                    if is_dataclass:      # declared field with a default: reads of obj.<name> are heap reads (field_types), the
                        ci.annotations[mangle(sub.target.id, node.name)] = sub.annotation      # class attribute only feeds the constructor
                elif isinstance(sub, ast.AnnAssign) and isinstance(sub.target, ast.Name):
                    ci.annotations[mangle(sub.target.id, node.name)] = sub.annotation
            ci.decorators = _decorator_names(node)
            mi.classes[node.name] = ci
        elif isinstance(node, ast.FunctionDef):
            mi.functions[node.name] = FuncInfo(module=mi, cls=None, node=node, name=node.name, decorators=_decorator_names(node))
        elif isinstance(node, ast.Assign) and len(node.targets) == 1 and isinstance(node.targets[0], ast.Name):
            mi.globals[node.targets[0].id] = node.value
    _CACHE[key] = mi
    return mi


def module_relpath(dotted: str) -> Optional[str]:
    """'pymarkdown.main' -> 'pymarkdown/main.py' if it exists in the repo."""
    p = dotted.replace(".", "/")
    for cand in (p + ".py", p + "/__init__.py"):
        if os.path.exists(os.path.join(REPO_ROOT, cand)):
            return cand
    return None


def find_function(key: str) -> FuncInfo:
    """key = 'pymarkdown/main.py::PyMarkdownLint.__scan_files_if_no_errors' (source spelling)."""
    relpath, q = key.split("::")
    mi = load_module(relpath)
    if "." in q:
        cname, fname = q.split(".", 1)
        ci = mi.classes.get(cname)
        if ci is None:
            raise KeyError(f"unresolved contract key (class): {key}")
        fi = ci.methods.get(mangle(fname, cname))
        if fi is None:
            raise KeyError(f"unresolved contract key (method): {key}")
        return fi
    fi = mi.functions.get(q)
    if fi is None:
        raise KeyError(f"unresolved contract key (function): {key}")
    return fi


def find_class(name: str, from_module: Optional[ModuleInfo] = None) -> Optional[ClassInfo]:
    """Resolve a class name as seen from a module (own classes, then imports)."""
    if from_module is not None:
        if name in from_module.classes:
            return from_module.classes[name]
        imp = from_module.imports.get(name)
        if imp:
            rp = module_relpath(imp[0])
            if rp:
                m2 = load_module(rp)
                if (imp[1] or name) in m2.classes:
                    return m2.classes[imp[1] or name]
    for mi in list(_CACHE.values()):
        if name in mi.classes:
            return mi.classes[name]
    return None


def class_mro(ci: ClassInfo) -> List[ClassInfo]:
    out = [ci]
    for b in ci.bases:
        bc = find_class(b, ci.module)
        if bc is not None:
            for x in class_mro(bc):
                if x not in out:
                    out.append(x)
    return out


def find_method(ci: ClassInfo, name: str) -> Optional[FuncInfo]:
    for c in class_mro(ci):
        if name in c.methods:
            return c.methods[name]
    return None


def find_class_attr(ci: ClassInfo, name: str) -> Optional[Tuple[ClassInfo, ast.expr]]:
    for c in class_mro(ci):
        if name in c.class_attrs:
            return c, c.class_attrs[name]
    return None


def clear_cache() -> None:
    _CACHE.clear()
