"""
replay.py -- turn a counter-model into a readable scenario and, where a native harness is registered for the
contract, run the REAL function on that scenario.

A harness is a callable registered with @harness(key): (scenario dict) -> {"reproduced": bool, "observed": ...}.
Scenarios are concretised from the solver model: parameters, the fields read from them, and the sequence of
outcomes (return value / raised exception class) of every contracted callee on the failing path.
"""
from __future__ import annotations

import json
import os
import subprocess
import sys
from typing import Any, Callable, Dict, List, Optional

import z3

from .state import ExcVal, State
from .sym import INTERN, V, Val, exc_name, sat, slen

HARNESSES: Dict[str, Callable[[Dict[str, Any]], Dict[str, Any]]] = {}


def harness(key: str):
    def deco(f):
        HARNESSES[key] = f
        return f

    return deco


# Conformance batteries: when the deductive step cannot decide a function (its body left the verified subset), a
# registered battery runs the REAL function on fixed inputs against the contract's postcondition evaluated natively.
# A failing input is a violation with a concrete replay; a passing battery decides nothing (the verdict stays UNDECIDED).
BATTERIES: Dict[str, Callable[[], Dict[str, Any]]] = {}


def battery(key: str):
    def deco(f):
        BATTERIES[key] = f
        return f

    return deco


def run_script(script: str, expected: str) -> Dict[str, Any]:
    """Run a native script against /repo's working tree; exit code 1 of the script = the postcondition failed."""
    repo = os.environ.get("PYVC_REPO", "/repo")
    p = subprocess.run([sys.executable, "-c", script], capture_output=True, text=True, cwd=repo, timeout=300,
                       env={**os.environ, "PYTHONPATH": repo})
    return {"reproduced": p.returncode == 1, "script": script, "cwd": repo, "expected": expected,
            "observed": (p.stdout[-1500:] + p.stderr[-1500:]).strip(), "exit": p.returncode}


def _py_of(model, z, depth: int = 0) -> Any:
    """Concretise a term of sort V under the model (best effort, for display and harness input)."""
    try:
        v = model.eval(z, model_completion=True)
    except z3.Z3Exception:
        return "?"
    d = v.decl().name() if z3.is_app(v) else ""
    if d == "none":
        return None
    if d == "B":
        return z3.is_true(v.arg(0))
    if d == "I":
        return v.arg(0).as_long() if z3.is_int_value(v.arg(0)) else str(v.arg(0))
    if d == "S":
        sid = v.arg(0)
        if z3.is_int_value(sid):
            lit = INTERN.string_of_id(sid.as_long())
            if lit is not None:
                return lit
        try:
            n = model.eval(slen(sid), model_completion=True).as_long()
            if 0 <= n <= 40:
                return "".join(chr(max(32, min(0x10FFFF, model.eval(sat(sid, i), model_completion=True).as_long()))) for i in range(n))
            return f"<str len={n}>"
        except Exception:
            return f"<str {sid}>"
    if d == "E":
        e = INTERN.enum_of_id(v.arg(0).as_long()) if z3.is_int_value(v.arg(0)) else None
        return e or f"<enum {v.arg(0)}>"
    if d == "R":
        return f"<obj #{v.arg(0)}>"
    if d == "T":
        return f"<tuple #{v.arg(0)}>"
    return str(v)


def _val(model, st: State, v: Val, depth: int = 0) -> Any:
    if v is None:
        return None
    if v.tup is not None:
        return [_val(model, st, e, depth + 1) for e in v.tup]
    if v.py is not None and v.z is None:
        if v.py[0] == "exc":
            e: ExcVal = v.py[1]
            c = model.eval(e.cls_expr(), model_completion=True)
            return {"exception": exc_name(c.as_long()) if z3.is_int_value(c) else str(c), "origin": e.origin}
        return f"<{v.py[0]}>"
    out = _py_of(model, v.z)
    from .sym import hint_kind

    k = hint_kind(v.th.strip_optional() if v.th else None)
    if k == "list" and isinstance(out, str) and out.startswith("<obj") and depth < 2:
        try:
            r = V.r(v.z)
            n = model.eval(st.hread("$llen", r), model_completion=True).as_long()
            items = st.hread("$litems", r)
            eth = v.th.strip_optional().args[0] if v.th.strip_optional().args else None
            return [_val(model, st, Val(z3.Select(items, i), th=eth), depth + 1) for i in range(min(n, 6))] + (["..."] if n > 6 else [])
        except Exception:
            return out
    return out


def describe_model(ob) -> Dict[str, Any]:
    m = ob.model
    if m is None:
        return {}
    st: State = ob.st
    entry = st.old or st
    out: Dict[str, Any] = {"parameters": {}, "locals_at_failure": {}, "callee_outcomes": [], "ghost": {}}
    for k, v in entry.locals.items():
        try:
            out["parameters"][k] = _val(m, entry, v)
        except Exception as e:  # display only
            out["parameters"][k] = f"<{type(e).__name__}>"
    for k, v in st.locals.items():
        if k not in entry.locals:
            try:
                out["locals_at_failure"][k] = _val(m, st, v)
            except Exception:
                pass
    for k, v in st.ghost.items():
        try:
            out["ghost"][k] = _val(m, st, v)
        except Exception:
            pass
    for ev in st.events:
        o = ev["outcome"]
        try:
            if o[0] == "ret":
                res = {"returns": _val(m, st, o[1])}
            else:
                c = m.eval(o[1], model_completion=True)
                res = {"raises": exc_name(c.as_long()) if z3.is_int_value(c) else o[2]}
            out["callee_outcomes"].append({"callee": ev["callee"], "line": ev["line"],
                                           "args": [_val(m, st, a) for a in ev["args"]], **res})
        except Exception:
            out["callee_outcomes"].append({"callee": ev["callee"], "line": ev["line"]})
    # fields of `self` and of parameters that the path read
    fields = {}
    for f, arr in entry.heap0.items():
        if f.startswith("$"):
            continue
        for k, v in entry.locals.items():
            if v.z is not None and v.th is not None:
                from .sym import hint_kind

                if hint_kind(v.th.strip_optional()) == "obj":
                    try:
                        fields[f"{k}.{f}"] = _py_of(m, z3.Select(arr, V.r(v.z)))
                    except Exception:
                        pass
    out["fields_at_entry"] = {k: v for k, v in fields.items() if v != "?"}
    return out


def try_replay(contract, ob, result) -> Dict[str, Any]:
    h = HARNESSES.get(contract.key)
    if h is None:
        return {"reproduced": False, "reason": "no native harness registered for this contract; the solver model is attached"}
    try:
        scenario = describe_model(ob)
        scenario["obligation"] = ob.name
        scenario["clause"] = ob.info
        r = h(scenario)
        r.setdefault("reproduced", False)
        return r
    except Exception as e:
        return {"reproduced": False, "reason": f"harness error {type(e).__name__}: {e}"}


def replay_file(path: str) -> int:
    d = json.load(open(path))
    print(json.dumps({k: d[k] for k in ("property", "obligation", "clause") if k in d}, indent=1))
    nr = d.get("native_replay") or {}
    if nr.get("script") and not nr.get("command"):
        import tempfile

        with tempfile.NamedTemporaryFile("wt", suffix=".py", delete=False) as fh:
            fh.write(nr["script"])
        nr["command"] = f"/venv/bin/python {fh.name}"
    cmd = nr.get("command")
    if cmd:
        print("re-running:", cmd)
        p = subprocess.run(cmd, shell=True, capture_output=True, text=True, cwd=nr.get("cwd") or None)
        print(p.stdout[-2000:], p.stderr[-2000:])
        print("exit code", p.returncode, "(expected by the property:", nr.get("expected"), ")")
        return 1 if nr.get("reproduced") else 0
    print("no native command recorded; solver model:")
    print(json.dumps(d.get("solver_model"), indent=1)[:4000])
    return 1
