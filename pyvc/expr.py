"""
expr.py -- expression evaluation.  ev(node, st) -> list of Out('val'|'raise').
In pure mode (st.pure) evaluation never forks and never raises (used for specifications).
"""
from __future__ import annotations

import ast
from typing import List, Optional

import z3

from . import front
from .exec import NeedsContract, Out, Unsupported
from .state import ExcVal, State
from .sym import (CLS_DICT, CLS_LIST, CLS_SET, INTERN, NONE, TH, V, Val, clsof, exc_is_sub, fresh, hint_kind, mkB, mkI,
                  parse_hint, sat, slen, tat, tlen, vbool, vint, vnone, vstr_lit)

IntS = z3.IntSort()


class ExprMixin:
    # ------------------------------------------------------------ helpers to sequence evaluation
    def ev_list(self, nodes: List[ast.expr], st: State):
        """Evaluate nodes left to right. Returns list of (st, [vals]) and list of raise Outs."""
        results = [(st, [])]
        raises: List[Out] = []
        for n in nodes:
            nxt = []
            for s, vals in results:
                for o in self.ev(n, s):
                    if o.kind == "raise":
                        raises.append(o)
                    else:
                        nxt.append((o.st, vals + [o.val]))
            results = nxt
        return results, raises

    def ev1(self, node: ast.expr, st: State) -> Val:
        """Pure evaluation: exactly one value, no fork."""
        was = st.pure
        st.pure = True
        try:
            outs = self.ev(node, st)
        finally:
            st.pure = was
        if len(outs) != 1 or outs[0].kind != "val":
            raise Unsupported("pure expression forked", node)
        return outs[0].val

    # ------------------------------------------------------------ main dispatch
    def ev(self, node: ast.expr, st: State) -> List[Out]:
        m = getattr(self, "ev_" + type(node).__name__, None)
        if m is None:
            raise Unsupported(f"expression {type(node).__name__}", node)
        return m(node, st)

    def ev_Constant(self, node, st):
        c = node.value
        if c is None:
            return [Out("val", st, vnone())]
        if isinstance(c, bool):
            return [Out("val", st, vbool(c))]
        if isinstance(c, int):
            return [Out("val", st, vint(c))]
        if isinstance(c, str):
            return [Out("val", st, vstr_lit(c))]
        if c is Ellipsis:
            return [Out("val", st, vnone())]
        raise Unsupported(f"constant {c!r}", node)

    def ev_Name(self, node, st):
        return [Out("val", st, self.lookup_name(node.id, st, node))]

    def lookup_name(self, name: str, st: State, node=None) -> Val:
        if name in st.locals:
            return st.locals[name]
        if name in st.spec_env:
            return st.spec_env[name]
        if name in st.ghost:
            return st.ghost[name]
        from .spec import SPEC_LIB

        if name in SPEC_LIB:
            return Val(py=("specfn", name))
        cs = getattr(st, "class_scope", None)
        if cs is not None and name in cs.class_attrs:
            return self.class_attr(st, cs, name, node)
        f = st.func
        if f is not None:
            mi = f.module
            if name in mi.classes:
                return Val(py=("class", mi.classes[name]))
            if name in mi.functions:
                return Val(py=("func", mi.functions[name]))
            if name in mi.imports:
                mod, sym = mi.imports[name]
                rp = front.module_relpath(mod)
                if rp is not None and sym is not None:
                    m2 = front.load_module(rp)
                    if sym in m2.classes:
                        return Val(py=("class", m2.classes[sym]))
                    if sym in m2.functions:
                        return Val(py=("func", m2.functions[sym]))
                    if sym in m2.globals:
                        return self.eval_global(m2, sym, st)
                if sym is None:
                    return Val(py=("module", mod))
                rp2 = front.module_relpath(mod + "." + sym)
                if rp2 is not None:
                    return Val(py=("module", mod + "." + sym))
                return Val(py=("modattr", f"{mod}.{sym}"))
            if name in mi.globals:
                return self.eval_global(mi, name, st)
        if name in ("True", "False", "None"):
            return {"True": vbool(True), "False": vbool(False), "None": vnone()}[name]
        if name == "__file__":
            v = Val(fresh("file_path"), th=TH("str"))
            st.assume(self.type_formula(st, v.z, v.th))
            return v
        # a class of the repository named in a specification clause but not imported by the module at hand
        ci = front.find_class(name, None)
        if ci is None and name[:1].isupper():
            self.has_override  # noqa: B018  (index lives on CallMixin)
            rel = self.class_file(name)
            if rel is not None:
                ci = front.load_module(rel).classes.get(name)
        if ci is not None:
            return Val(py=("class", ci))
        import builtins

        if hasattr(builtins, name) or name in self.SPEC_FUNCS:
            return Val(py=("builtin", name))
        raise Unsupported(f"unresolved name {name}", node)

    def eval_global(self, mi, name, st: State) -> Val:
        expr = mi.globals[name]
        if isinstance(expr, ast.Constant):
            return self.ev_Constant(expr, st)[0].val
        return Val(py=("modattr", f"{mi.relpath}:{name}"))

    SPEC_FUNCS = {"old", "now", "implies", "iff", "forall", "exists", "result", "is_exc", "typeof_is", "str_eq", "fresh_ref",
                  "unchanged", "contains", "same_except", "is_fresh", "forall_val", "is_empty"}

    # ------------------------------------------------------------ attribute access
    def ev_Attribute(self, node, st):
        outs = []
        for o in self.ev(node.value, st):
            if o.kind == "raise":
                outs.append(o)
                continue
            outs.extend(self.getattr_val(o.st, o.val, node.attr, node))
        return outs

    def getattr_val(self, st: State, base: Val, attr: str, node) -> List[Out]:
        if base.py is not None and base.z is None:
            kind = base.py[0]
            if kind == "module":
                mod = base.py[1]
                rp = front.module_relpath(mod)
                if rp is not None:
                    m2 = front.load_module(rp)
                    if attr in m2.classes:
                        return [Out("val", st, Val(py=("class", m2.classes[attr])))]
                    if attr in m2.functions:
                        return [Out("val", st, Val(py=("func", m2.functions[attr])))]
                sub = front.module_relpath(mod + "." + attr)
                if sub is not None or mod in ("os",) and attr == "path":
                    return [Out("val", st, Val(py=("module", mod + "." + attr)))]
                return [Out("val", st, self.modattr_val(st, f"{mod}.{attr}"))]
            if kind == "modattr":
                return [Out("val", st, Val(py=("modattr", f"{base.py[1]}.{attr}")))]
            if kind == "class":
                return [Out("val", st, self.class_attr(st, base.py[1], attr, node))]
            if kind == "exc":
                e: ExcVal = base.py[1]
                if attr in e.fields:
                    return [Out("val", st, e.fields[attr])]
                v = Val(fresh(f"exc_{attr}"))
                e.fields[attr] = v
                return [Out("val", st, v)]
            if kind == "builtin":
                return [Out("val", st, Val(py=("modattr", f"{base.py[1]}.{attr}")))]
            if kind == "typeof" and attr == "__name__":
                inner = base.py[1]
                f = z3.Function("class_name", IntS, IntS)
                if inner.py is not None and inner.py[0] == "exc":
                    sid = f(inner.py[1].cls_expr())
                else:
                    sid = f(clsof(V.r(self.to_z(st, inner))))
                st.assume(slen(sid) >= 1)
                return [Out("val", st, Val(V.S(sid), th=TH("str")))]
            raise Unsupported(f"attribute {attr} of {kind}", node)
        if base.tup is not None:
            raise Unsupported("attribute of tuple", node)
        z = base.z
        # None check
        res: List[Out] = []
        th = base.th
        if th is not None and th.name == "None" and not st.pure:
            return [self.raise_out(st, "AttributeError", node)]
        maybe_none = th is None or th.is_optional
        states = [(st, False)]
        if maybe_none and not st.pure:
            states = []
            for s2, isnone in self.branch(st, z == NONE):
                if isnone:
                    res.append(self.raise_out(s2, "AttributeError", node))
                else:
                    states.append((s2, False))
        for s2, _ in states:
            res.extend(self.getattr_obj(s2, base, attr, node))
        return res

    def getattr_obj(self, st: State, base: Val, attr: str, node) -> List[Out]:
        th = base.th.strip_optional() if base.th is not None else None
        k = hint_kind(th)
        if k in ("list", "dict", "set", "str", "int", "bool", "tuple"):
            return [Out("val", st, Val(py=("bmethod", base, attr, k)))]
        ci = self.class_of_val(st, base)
        if ci is not None:
            m = front.find_method(ci, attr)
            if m is not None:
                if m.is_property:
                    return self.call_function(st, m, [base], {}, node, recv_text=None)
                if m.is_static:
                    return [Out("val", st, Val(py=("func", m)))]
                return [Out("val", st, Val(py=("bound", base, m)))]
            ca = front.find_class_attr(ci, attr)
            decl = ci.field_types().get(attr)
            if ca is not None and decl is None and not self.field_is_instance_written(ci, attr):
                return [Out("val", st, self.class_attr(st, ci, attr, node))]
            fth = self.field_hint(st, ci, attr, node)
            r = V.r(base.z)
            untouched = attr in st.heap0 and st.heap.get(attr, st.heap0[attr]) is st.heap0[attr] or (attr not in st.heap and attr not in st.heap0)
            zval = st.hread(attr, r)
            if untouched:
                # the field has not been written since the function was entered: what it refers to existed at entry
                st.assume(z3.Implies(z3.And(r < st.alloc0, V.is_R(zval)), V.r(zval) < st.alloc0))
            return [Out("val", st, self.typed(st, zval, fth))]
        if base.th is not None and base.th.strip_optional().name in ("Namespace",):
            fth = self.ns_field_hint(st, attr)
            return [Out("val", st, self.typed(st, st.hread("ns." + attr, V.r(base.z)), fth))]
        # unknown class: plain field read, hint from contract types / the global field table
        fth = self.contract_type(st, node) if node is not None else None
        if fth is None and base.th is not None:
            from .spec import REGISTRY

            g = REGISTRY.get("$fields")
            t = g.types.get(f"{base.th.strip_optional().name}.{attr}") if g else None
            fth = parse_hint(t) if t else None
        if base.z is None:
            raise Unsupported(f"attribute {attr} on static value", node)
        return [Out("val", st, self.typed(st, st.hread(attr, V.r(base.z)), fth))]

    def modattr_val(self, st: State, name: str) -> Val:
        """module-level objects that are given a type in $fields (e.g. sys.stdin) are global cells"""
        from .spec import REGISTRY

        g = REGISTRY.get("$fields")
        t = g.types.get(name) if g else None
        if t:
            return self.typed(st, st.hread(f"$static.{name}", z3.IntVal(0)), parse_hint(t))
        return Val(py=("modattr", name))

    def field_is_instance_written(self, ci, attr) -> bool:
        for c in front.class_mro(ci):
            for m in c.methods.values():
                for n in ast.walk(m.node):
                    if isinstance(n, ast.Attribute) and isinstance(n.ctx, ast.Store) and n.attr == attr:
                        if isinstance(n.value, ast.Name) and n.value.id == "self":
                            return True
        return False

    def ns_field_hint(self, st: State, attr: str) -> Optional[TH]:
        from .spec import REGISTRY

        t = None
        if st.contract is not None:
            t = st.contract.types.get("args." + attr)
        if t is None:
            g = REGISTRY.get("$namespace")
            if g is not None:
                t = g.types.get(attr)
        return parse_hint(t) if t else None

    def contract_type(self, st: State, node) -> Optional[TH]:
        if st.contract is None or node is None:
            return None
        try:
            txt = self.src_text(node)
        except Exception:
            return None
        t = st.contract.types.get(txt)
        return parse_hint(t) if t else None

    def src_text(self, node) -> str:
        """Source text with mangled private names restored to their source spelling."""
        import re

        s = ast.unparse(node)
        return re.sub(r"\b_[A-Za-z][A-Za-z0-9]*(__[A-Za-z0-9_]+)", r"\1", s)

    def field_hint(self, st: State, ci, attr: str, node) -> Optional[TH]:
        t = self.contract_type(st, node)
        if t is not None:
            return t
        from .spec import REGISTRY

        g = REGISTRY.get("$fields")
        if g is not None:
            for c in front.class_mro(ci):
                tt = g.types.get(f"{c.name}.{attr}")
                if tt:
                    return parse_hint(tt)
        for c in front.class_mro(ci):
            a = c.field_types().get(attr)
            if a is not None:
                return parse_hint(a)
        return None

    def class_attr(self, st: State, ci, attr: str, node) -> Val:
        m = front.find_method(ci, attr)
        if m is not None:
            if "ClassProperty" in m.decorators:
                outs = self.inline_call(st, m, [Val(py=("class", ci))], {}, node)
                if len(outs) == 1 and outs[0].kind == "val":
                    o = outs[0].st
                    st.heap, st.nalloc, st.alloc_base, st.pc = o.heap, o.nalloc, o.alloc_base, o.pc
                    return outs[0].val
                raise Unsupported(f"class property {ci.name}.{attr}", node)
            if m.is_classmethod:
                return Val(py=("bound", Val(py=("class", ci)), m))
            return Val(py=("func", m))
        # enum member?
        if any(b in ("Enum", "IntEnum") for b in ci.bases):
            self.enum_classes()[ci.name] = ci
            if attr in ci.class_attrs:
                return Val(V.E(z3.IntVal(INTERN.enum_id(f"{ci.name}.{attr}"))), th=TH(ci.name))
        ca = front.find_class_attr(ci, attr)
        if ca is not None:
            owner, expr = ca
            if isinstance(expr, ast.Constant):
                return self.ev_Constant(expr, st)[0].val
            if not self.class_attr_is_mutated(owner, attr):
                v = self.eval_class_initialiser(st, owner, attr, expr)
                if v is not None:
                    return v
            # mutable / computed class attribute: one global object per (class, attr), field "$cls.<C>.<attr>"
            key = f"$static.{owner.name}.{attr}"
            from .spec import REGISTRY

            g = REGISTRY.get("$fields")
            t = g.types.get(f"{owner.name}.{attr}") if g else None
            th = parse_hint(t) if t else None
            return self.typed(st, st.hread(key, z3.IntVal(0)), th)
        raise Unsupported(f"class attribute {ci.name}.{attr}", node)

    _mut_cache = {}

    def class_attr_is_mutated(self, owner, attr: str) -> bool:
        """Syntactic: is `<anything>.<attr>` ever stored to, deleted, subscript-stored or mutated by a method call
        anywhere in the owner's module?  (class attributes never mutated are read as their initialiser)"""
        key = (owner.module.relpath, owner.name, attr)
        if key in ExprMixin._mut_cache:
            return ExprMixin._mut_cache[key]
        MUT = {"append", "extend", "insert", "clear", "pop", "remove", "add", "discard", "update", "sort", "setdefault",
               "popitem", "reverse"}
        hit = False
        for n in ast.walk(owner.module.tree):
            if isinstance(n, ast.Attribute) and n.attr == attr and isinstance(n.ctx, (ast.Store, ast.Del)):
                hit = True
            elif isinstance(n, ast.Subscript) and isinstance(n.ctx, (ast.Store, ast.Del)) and isinstance(n.value, ast.Attribute) and n.value.attr == attr:
                hit = True
            elif isinstance(n, ast.Call) and isinstance(n.func, ast.Attribute) and n.func.attr in MUT and isinstance(n.func.value, ast.Attribute) and n.func.value.attr == attr:
                hit = True
            elif isinstance(n, ast.Attribute) and isinstance(n.ctx, (ast.Store, ast.Del)) and isinstance(n.value, ast.Attribute) and n.value.attr == attr:
                hit = True  # X.attr.field = ...
        ExprMixin._mut_cache[key] = hit
        return hit

    def eval_class_initialiser(self, st: State, owner, attr: str, expr):
        s = self.spec_state(st, {}, None)
        s.pure = False
        s.class_scope = owner
        # name resolution inside the class body: module of the owner
        from .front import FuncInfo

        s.func = FuncInfo(module=owner.module, cls=owner, node=ast.FunctionDef(name="<classbody>", args=ast.arguments(posonlyargs=[], args=[], kwonlyargs=[], kw_defaults=[], defaults=[]), body=[], decorator_list=[]), name="<classbody>", decorators=["staticmethod"])
        s.contract = None
        try:
            outs = self.ev(expr, s)
        except Unsupported:
            return None
        if len(outs) != 1 or outs[0].kind != "val":
            return None
        o = outs[0].st
        st.heap, st.nalloc, st.alloc_base, st.pc = o.heap, o.nalloc, o.alloc_base, o.pc
        return outs[0].val

    # ------------------------------------------------------------ operators
    def ev_UnaryOp(self, node, st):
        outs = []
        for o in self.ev(node.operand, st):
            if o.kind == "raise":
                outs.append(o)
                continue
            if isinstance(node.op, ast.Not):
                outs.append(Out("val", o.st, vbool(z3.simplify(z3.Not(self.truthy(o.st, o.val))))))
            elif isinstance(node.op, ast.USub):
                outs.append(Out("val", o.st, vint(z3.simplify(-self.as_int(o.val)))))
            elif isinstance(node.op, ast.UAdd):
                outs.append(Out("val", o.st, o.val))
            else:
                raise Unsupported("unary op", node)
        return outs

    def as_int(self, v: Val):
        if v.z is None:
            raise Unsupported(f"int expected, got {v}")
        if v.th is not None and v.th.name == "bool":
            return z3.If(V.b(v.z), 1, 0)
        return z3.simplify(V.i(v.z))

    def ev_BoolOp(self, node, st):
        is_and = isinstance(node.op, ast.And)
        if st.pure:
            parts = [self.truthy(st, self.ev1(v, st)) for v in node.values]
            return [Out("val", st, vbool(z3.And(parts) if is_and else z3.Or(parts)))]
        outs: List[Out] = []
        work = [(st, 0, None)]
        while work:
            s, idx, _ = work.pop()
            for o in self.ev(node.values[idx], s):
                if o.kind == "raise":
                    outs.append(o)
                    continue
                if idx == len(node.values) - 1:
                    outs.append(o)
                    continue
                t = self.truthy(o.st, o.val)
                for s2, tv in self.branch(o.st, t):
                    if tv == is_and:
                        work.append((s2, idx + 1, None))
                    else:
                        outs.append(Out("val", s2, o.val))
        return outs

    def ev_IfExp(self, node, st):
        if st.pure:
            c = self.truthy(st, self.ev1(node.test, st))
            a, b = self.ev1(node.body, st), self.ev1(node.orelse, st)
            return [Out("val", st, Val(z3.If(c, self.to_z(st, a), self.to_z(st, b)), th=a.th if repr(a.th) == repr(b.th) else None))]
        outs = []
        for o in self.ev(node.test, st):
            if o.kind == "raise":
                outs.append(o)
                continue
            for s2, tv in self.branch(o.st, self.truthy(o.st, o.val)):
                outs.extend(self.ev(node.body if tv else node.orelse, s2))
        return outs

    def ev_NamedExpr(self, node, st):
        outs = []
        for o in self.ev(node.value, st):
            if o.kind == "val":
                o.st.locals[node.target.id] = o.val
            outs.append(o)
        return outs

    def ev_Compare(self, node, st):
        res, raises = self.ev_list([node.left] + list(node.comparators), st)
        outs: List[Out] = list(raises)
        for s, vals in res:
            parts = []
            for i, op in enumerate(node.ops):
                parts.append(self.compare(s, op, vals[i], vals[i + 1], node))
            outs.append(Out("val", s, vbool(z3.simplify(z3.And(parts)) if len(parts) > 1 else z3.simplify(parts[0]))))
        return outs

    def compare(self, st: State, op, a: Val, b: Val, node):
        if isinstance(op, ast.Eq):
            return self.py_eq(st, a, b)
        if isinstance(op, ast.NotEq):
            return z3.Not(self.py_eq(st, a, b))
        if isinstance(op, ast.Is):
            return self.py_is(st, a, b)
        if isinstance(op, ast.IsNot):
            return z3.Not(self.py_is(st, a, b))
        if isinstance(op, (ast.Lt, ast.LtE, ast.Gt, ast.GtE)):
            ka, kb = hint_kind(a.th), hint_kind(b.th)
            if ka == "str" or kb == "str":
                lt = z3.Function("str_lt", IntS, IntS, z3.BoolSort())
                x, y = V.s(a.z), V.s(b.z)
                if isinstance(op, ast.Lt):
                    return lt(x, y)
                if isinstance(op, ast.Gt):
                    return lt(y, x)
                if isinstance(op, ast.LtE):
                    return z3.Or(lt(x, y), x == y)
                return z3.Or(lt(y, x), x == y)
            x, y = self.as_int(a), self.as_int(b)
            return {ast.Lt: x < y, ast.LtE: x <= y, ast.Gt: x > y, ast.GtE: x >= y}[type(op)]
        if isinstance(op, (ast.In, ast.NotIn)):
            f = self.contains(st, b, a, node)
            return f if isinstance(op, ast.In) else z3.Not(f)
        raise Unsupported("comparison op", node)

    def py_is(self, st: State, a: Val, b: Val):
        if a.z is None and b.z is None and a.py and b.py:
            return z3.BoolVal(a.py[1] is b.py[1])
        if a.tup is not None or b.tup is not None:
            return self.py_eq(st, a, b)
        return self.to_z(st, a) == self.to_z(st, b)

    def contains(self, st: State, cont: Val, item: Val, node):
        if cont.tup is not None:
            return z3.Or([self.py_eq(st, item, e) for e in cont.tup]) if cont.tup else z3.BoolVal(False)
        k = hint_kind(cont.th.strip_optional() if cont.th else None)
        if k in ("dict", "set"):
            dom = st.hread("$ddom", V.r(cont.z))
            return z3.Select(dom, self.to_z(st, item))
        if k == "list":
            r = V.r(cont.z)
            j = fresh("j", IntS)
            items = st.hread("$litems", r)
            return z3.Exists([j], z3.And(0 <= j, j < st.hread("$llen", r), z3.Select(items, j) == self.to_z(st, item)))
        if k == "str" or (k is None and cont.z is not None and hint_kind(item.th) == "str" and st.pure):
            f = z3.Function("str_contains", IntS, IntS, z3.BoolSort())
            general = f(V.s(cont.z), V.s(self.to_z(st, item)))
            lit = self.literal_of(cont) if k == "str" else None
            if lit is not None and len(INTERN.strings) <= 400:
                # ground facts: which of the literal strings known so far are substrings of this literal
                for t_, id_ in list(INTERN.strings.items()):
                    if len(t_) != 1:
                        st.assume(f(V.s(cont.z), z3.IntVal(id_)) == z3.BoolVal(t_ in lit))
            if lit is not None and hint_kind(item.th) == "str":
                # a one-character string is contained in a literal iff its code point is one of the literal's
                isid = V.s(item.z)
                one = z3.Or([sat(isid, 0) == ord(ch) for ch in lit]) if lit else z3.BoolVal(False)
                return z3.If(slen(isid) == 1, one, general)
            return general
        raise Unsupported(f"`in` on {cont}", node)

    def ev_BinOp(self, node, st):
        res, raises = self.ev_list([node.left, node.right], st)
        outs = list(raises)
        for s, (a, b) in res:
            outs.extend(self.binop(s, node.op, a, b, node))
        return outs

    def binop(self, st: State, op, a: Val, b: Val, node) -> List[Out]:
        ka, kb = hint_kind(a.th), hint_kind(b.th)
        if isinstance(op, ast.Add) and (ka == "str" or kb == "str"):
            la, lb = self.literal_of(a), self.literal_of(b)
            if la is not None and lb is not None:
                return [Out("val", st, vstr_lit(la + lb))]
            f = z3.Function("str_concat", IntS, IntS, IntS)
            x, y = V.s(a.z), V.s(b.z)
            r = f(x, y)
            st.assume(slen(r) == slen(x) + slen(y))
            return [Out("val", st, Val(V.S(r), th=TH("str")))]
        if isinstance(op, ast.Add) and (a.tup is not None and b.tup is not None):
            return [Out("val", st, Val(tup=a.tup + b.tup))]
        if isinstance(op, ast.Add) and (ka == "list" or kb == "list"):
            return [Out("val", st, self.list_concat(st, a, b))]
        if isinstance(op, ast.BitOr) and (ka == "set" or kb == "set"):
            return [Out("val", st, self.set_union(st, a, b))]
        if isinstance(op, ast.Mod) and ka == "str":
            f = fresh("fmt", IntS)
            st.assume(slen(f) >= 0)
            return [Out("val", st, Val(V.S(f), th=TH("str")))]
        x, y = self.as_int(a), self.as_int(b)
        if isinstance(op, ast.Add):
            return [Out("val", st, vint(z3.simplify(x + y)))]
        if isinstance(op, ast.Sub):
            return [Out("val", st, vint(z3.simplify(x - y)))]
        if isinstance(op, ast.Mult):
            return [Out("val", st, vint(z3.simplify(x * y)))]
        if isinstance(op, (ast.FloorDiv, ast.Mod)):
            outs = []
            for s2, zero in (self.branch(st, y == 0) if not st.pure else [(st, False)]):
                if zero:
                    outs.append(self.raise_out(s2, "ZeroDivisionError", node))
                else:
                    # Python floor semantics: for y > 0 z3's div/mod agree with Python; for y < 0 adjust
                    q = z3.If(y > 0, x / y, -((-x) / (-y)) if False else (-x) / (-y))
                    if isinstance(op, ast.FloorDiv):
                        outs.append(Out("val", s2, vint(z3.simplify(q))))
                    else:
                        outs.append(Out("val", s2, vint(z3.simplify(x - y * q))))
            return outs
        raise Unsupported("binary op", node)

    # ------------------------------------------------------------ strings
    def ev_JoinedStr(self, node, st):
        parts = []
        nodes = []
        for v in node.values:
            if isinstance(v, ast.FormattedValue):
                nodes.append(v.value)
        res, raises = self.ev_list(nodes, st)
        outs = list(raises)
        tmpl = "".join("{}" if isinstance(v, ast.FormattedValue) else str(v.value) for v in node.values)
        for s, vals in res:
            lits = [self.literal_of(v) for v in vals]
            if all(x is not None for x in lits):
                # every interpolated value is a known string literal: the result is a literal too
                it_ = iter(lits)
                text = "".join(next(it_) if isinstance(v, ast.FormattedValue) else str(v.value) for v in node.values)
                outs.append(Out("val", s, vstr_lit(text)))
                continue
            tid = INTERN.string_id(tmpl)
            f = z3.Function(f"fmt{len(vals)}", *([IntS] + [V] * len(vals) + [IntS]))
            r = f(z3.IntVal(tid), *[self.to_z(s, v) for v in vals]) if vals else z3.IntVal(tid)
            if vals:
                s.assume(slen(r) >= 0)
            outs.append(Out("val", s, Val(V.S(r), th=TH("str"))))
        return outs

    def literal_of(self, v: Val) -> Optional[str]:
        if v is None or v.z is None or hint_kind(v.th) != "str":
            return None
        z = z3.simplify(v.z)
        if z3.is_app(z) and z.decl().name() == "S":
            a = z.arg(0)
            if z3.is_int_value(a):
                return INTERN.string_of_id(a.as_long())
            if z3.is_app(a) and a.decl().name() == "str_char" and z3.is_int_value(a.arg(0)):
                return chr(a.arg(0).as_long())
        return None

    def ev_FormattedValue(self, node, st):
        return self.ev(node.value, st)

    # ------------------------------------------------------------ containers
    def ev_Tuple(self, node, st):
        res, raises = self.ev_list(list(node.elts), st)
        return list(raises) + [Out("val", s, Val(tup=vals)) for s, vals in res]

    def ev_List(self, node, st):
        if any(isinstance(e, ast.Starred) for e in node.elts):
            # [a, *xs, b] == [a] + list(xs) + [b]
            res, raises = self.ev_list([e.value if isinstance(e, ast.Starred) else e for e in node.elts], st)
            outs = list(raises)
            for s, vals in res:
                acc, run = None, []
                for e, v in zip(node.elts, vals):
                    if isinstance(e, ast.Starred):
                        part = self.new_list(s, run)
                        acc = part if acc is None else self.list_concat(s, acc, part)
                        acc = self.list_concat(s, acc, self.to_list(s, v, node))
                        run = []
                    else:
                        run.append(v)
                acc = self.list_concat(s, acc, self.new_list(s, run)) if run else acc
                outs.append(Out("val", s, acc))
            return outs
        res, raises = self.ev_list(list(node.elts), st)
        outs = list(raises)
        for s, vals in res:
            lv = self.new_list(s, vals)
            lv.lit = list(vals)
            outs.append(Out("val", s, lv))
        return outs

    def ev_Set(self, node, st):
        res, raises = self.ev_list(list(node.elts), st)
        outs = list(raises)
        for s, vals in res:
            v = self.new_dict(s, "set")
            for e in vals:
                self.dict_store(s, v, e, None)
            outs.append(Out("val", s, v))
        return outs

    def ev_Dict(self, node, st):
        if any(k is None for k in node.keys):
            raise Unsupported("dict unpacking", node)
        res, raises = self.ev_list(list(node.keys) + list(node.values), st)
        outs = list(raises)
        n = len(node.keys)
        for s, vals in res:
            d = self.new_dict(s, "dict")
            for k, v in zip(vals[:n], vals[n:]):
                self.dict_store(s, d, k, v)
            outs.append(Out("val", s, d))
        return outs

    def new_list(self, st: State, vals: List[Val], elem_th: Optional[TH] = None) -> Val:
        r = st.new_ref()
        st.assume(clsof(r) == CLS_LIST)
        arr = z3.K(IntS, NONE)
        for i, v in enumerate(vals):
            arr = z3.Store(arr, i, self.to_z(st, v))
        st.hwrite("$litems", r, arr)
        st.hwrite("$llen", r, z3.IntVal(len(vals)))
        if elem_th is None and vals and all(v.th is not None and repr(v.th) == repr(vals[0].th) for v in vals):
            elem_th = vals[0].th
        return Val(V.R(r), th=TH("List", [elem_th or TH("Any")]))

    def new_list_sym(self, st: State, items, length, elem_th: Optional[TH] = None) -> Val:
        r = st.new_ref()
        st.assume(clsof(r) == CLS_LIST)
        st.hwrite("$litems", r, items)
        st.hwrite("$llen", r, length)
        return Val(V.R(r), th=TH("List", [elem_th or TH("Any")]))

    def new_dict(self, st: State, kind: str = "dict", kth=None, vth=None) -> Val:
        r = st.new_ref()
        st.assume(clsof(r) == (CLS_DICT if kind == "dict" else CLS_SET))
        st.hwrite("$ddom", r, z3.K(V, z3.BoolVal(False)))
        st.hwrite("$dlen", r, z3.IntVal(0))
        if kind == "dict":
            return Val(V.R(r), th=TH("Dict", [kth or TH("Any"), vth or TH("Any")]))
        return Val(V.R(r), th=TH("Set", [kth or TH("Any")]))

    def dict_store(self, st: State, d: Val, k: Val, v: Optional[Val]) -> None:
        r = V.r(d.z)
        kz = self.to_z(st, k)
        dom = st.hread("$ddom", r)
        present = z3.Select(dom, kz)
        r_is_empty_before = z3.is_int_value(z3.simplify(st.hread("$dlen", r))) and z3.simplify(st.hread("$dlen", r)).as_long() == 0
        st.hwrite("$dlen", r, z3.simplify(z3.If(present, st.hread("$dlen", r), st.hread("$dlen", r) + 1)))
        st.hwrite("$ddom", r, z3.Store(dom, kz, True))
        if v is not None:
            st.hwrite("$dval", r, z3.Store(st.hread("$dval", r), kz, self.to_z(st, v)))
        # refine element hints
        if d.th is not None and d.th.args:
            if d.th.args[0].name == "Any" and k.th is not None:
                d.th.args[0] = k.th
            if v is not None and len(d.th.args) > 1 and v.th is not None:
                if d.th.args[1].name == "Any" and r_is_empty_before:
                    d.th.args[1] = v.th
                elif repr(d.th.args[1]) != repr(v.th):
                    d.th.args[1] = self.join_hints(st, d.th.args[1], v.th)

    def join_hints(self, st: State, a: TH, b: TH) -> TH:
        if repr(a) == repr(b):
            return a
        if a.name == "Any":
            return b
        if b.name == "Any":
            return a
        if hint_kind(a) == hint_kind(b) and hint_kind(a) in ("list", "dict", "set") and len(a.args) == len(b.args):
            return TH(a.name, [self.join_hints(st, x, y) for x, y in zip(a.args, b.args)])
        if hint_kind(a) == "obj" and hint_kind(b) == "obj":
            mod = st.func.module if st.func is not None else None
            ca, cb = front.find_class(a.name, mod), front.find_class(b.name, mod)
            if ca is not None and cb is not None:
                ma = front.class_mro(ca)
                for c in front.class_mro(cb):
                    if c in ma:
                        return TH(c.name)
        return TH("Any")

    def list_concat(self, st: State, a: Val, b: Val) -> Val:
        ra, rb = V.r(a.z), V.r(b.z)
        la, lb = st.hread("$llen", ra), st.hread("$llen", rb)
        ia, ib = st.hread("$litems", ra), st.hread("$litems", rb)
        items = fresh("cat", z3.ArraySort(IntS, V))
        k = fresh("k", IntS)
        st.assume(z3.ForAll([k], z3.Implies(z3.And(0 <= k, k < la), z3.Select(items, k) == z3.Select(ia, k))))
        st.assume(z3.ForAll([k], z3.Implies(z3.And(la <= k, k < la + lb), z3.Select(items, k) == z3.Select(ib, k - la))))
        eth = a.th.args[0] if a.th and a.th.args else None
        return self.new_list_sym(st, items, la + lb, eth)

    def set_union(self, st: State, a: Val, b: Val) -> Val:
        ra, rb = V.r(a.z), V.r(b.z)
        da, db = st.hread("$ddom", ra), st.hread("$ddom", rb)
        r = st.new_ref()
        st.assume(clsof(r) == CLS_SET)
        dom = fresh("union", z3.ArraySort(V, z3.BoolSort()))
        x = fresh("x", V)
        st.assume(z3.ForAll([x], z3.Select(dom, x) == z3.Or(z3.Select(da, x), z3.Select(db, x))))
        st.hwrite("$ddom", r, dom)
        n = fresh("ulen", IntS)
        st.assume(n >= 0)
        st.assume(n >= st.hread("$dlen", ra))
        st.assume(n >= st.hread("$dlen", rb))
        st.assume(n <= st.hread("$dlen", ra) + st.hread("$dlen", rb))
        st.hwrite("$dlen", r, n)
        return Val(V.R(r), th=a.th)

    # ------------------------------------------------------------ subscripts
    def ev_Subscript(self, node, st):
        if isinstance(node.slice, ast.Slice):
            parts = [node.value] + [x for x in (node.slice.lower, node.slice.upper, node.slice.step) if x is not None]
            res, raises = self.ev_list(parts, st)
            outs = list(raises)
            for s, vals in res:
                base = vals[0]
                it = iter(vals[1:])
                lo = next(it) if node.slice.lower is not None else None
                hi = next(it) if node.slice.upper is not None else None
                step = next(it) if node.slice.step is not None else None
                outs.append(Out("val", s, self.slice_val(s, base, lo, hi, step, node)))
            return outs
        res, raises = self.ev_list([node.value, node.slice], st)
        outs = list(raises)
        for s, (base, idx) in res:
            outs.extend(self.subscript(s, base, idx, node))
        return outs

    def norm_index(self, idx_int, length):
        return z3.If(idx_int < 0, idx_int + length, idx_int)

    def subscript(self, st: State, base: Val, idx: Val, node) -> List[Out]:
        if base.tup is not None:
            i = z3.simplify(self.as_int(idx))
            if z3.is_int_value(i):
                k = i.as_long()
                if -len(base.tup) <= k < len(base.tup):
                    return [Out("val", st, base.tup[k])]
                return [self.raise_out(st, "IndexError", node)]
            raise Unsupported("symbolic index into static tuple", node)
        th = base.th.strip_optional() if base.th is not None else None
        k = hint_kind(th)
        if k == "list":
            r = V.r(base.z)
            n = st.hread("$llen", r)
            eth = th.args[0] if th.args and th.args[0].name != "Any" else None
            outs = []
            if st.pure:
                # specifications index from the front (a negative literal still wraps); symbolic indices are taken as is
                raw = z3.simplify(self.as_int(idx))
                i = z3.simplify(raw + n) if (z3.is_int_value(raw) and raw.as_long() < 0) else raw
                return [Out("val", st, self.elem_typed(st, z3.Select(st.hread("$litems", r), i), eth))]
            i = self.norm_index(self.as_int(idx), n)
            for s2, ok in self.branch(st, z3.And(0 <= i, i < n)):
                if ok:
                    outs.append(Out("val", s2, self.elem_typed(s2, z3.Select(s2.hread("$litems", r), i), eth)))
                else:
                    outs.append(self.raise_out(s2, "IndexError", node))
            return outs
        if k == "dict":
            r = V.r(base.z)
            kz = self.to_z(st, idx)
            vth = th.args[1] if len(th.args) > 1 and th.args[1].name != "Any" else None
            if st.pure:
                return [Out("val", st, self.elem_typed(st, z3.Select(st.hread("$dval", r), kz), vth))]
            outs = []
            for s2, ok in self.branch(st, z3.Select(st.hread("$ddom", r), kz)):
                if ok:
                    outs.append(Out("val", s2, self.elem_typed(s2, z3.Select(s2.hread("$dval", r), kz), vth)))
                else:
                    outs.append(self.raise_out(s2, "KeyError", node))
            return outs
        if k == "tuple" or (base.z is not None and th is None):
            # V-level tuple
            t = V.t(base.z)
            i = z3.simplify(self.as_int(idx))
            eth = None
            if th is not None and th.args and z3.is_int_value(i) and 0 <= i.as_long() < len(th.args):
                eth = th.args[i.as_long()]
            return [Out("val", st, self.elem_typed(st, tat(t, self.norm_index(i, tlen(t))), eth))]
        if k == "str":
            sid = V.s(base.z)
            n = slen(sid)
            i = self.norm_index(self.as_int(idx), n)
            from .sym import str_char as ch  # canonical 1-char string with that code point
            outs = []
            for s2, ok in (self.branch(st, z3.And(0 <= i, i < n)) if not st.pure else [(st, True)]):
                if ok:
                    c = ch(sat(sid, i))
                    s2.assume(slen(c) == 1)
                    s2.assume(sat(c, 0) == sat(sid, i))
                    outs.append(Out("val", s2, Val(V.S(c), th=TH("str"))))
                else:
                    outs.append(self.raise_out(s2, "IndexError", node))
            return outs
        raise Unsupported(f"subscript on {base}", node)

    def elem_typed(self, st: State, z, th: Optional[TH]) -> Val:
        if th is None:
            return Val(z)
        if st.pure:
            # in a specification the element may sit under a guard (implies / if-else) that excludes this index:
            # its type is a hint only, never an unconditional fact
            return Val(z, th=th)
        return self.typed(st, z, th)

    def slice_val(self, st: State, base: Val, lo: Optional[Val], hi: Optional[Val], step: Optional[Val], node) -> Val:
        th = base.th.strip_optional() if base.th is not None else None
        k = hint_kind(th)
        if base.tup is not None:
            def c(v):
                if v is None:
                    return None
                i = z3.simplify(self.as_int(v))
                if not z3.is_int_value(i):
                    raise Unsupported("symbolic slice of static tuple", node)
                return i.as_long()
            return Val(tup=base.tup[slice(c(lo), c(hi), c(step))])
        if step is not None:
            raise Unsupported("slice step", node)
        if k == "list":
            r = V.r(base.z)
            n = st.hread("$llen", r)
            a = self.clamp(self.as_int(lo), n) if lo is not None else z3.IntVal(0)
            b = self.clamp(self.as_int(hi), n) if hi is not None else n
            items = st.hread("$litems", r)
            new = fresh("slice", z3.ArraySort(IntS, V))
            j = fresh("j", IntS)
            ln = z3.If(b >= a, b - a, 0)
            st.assume(z3.ForAll([j], z3.Implies(z3.And(0 <= j, j < ln), z3.Select(new, j) == z3.Select(items, a + j))))
            return self.new_list_sym(st, new, z3.simplify(ln), th.args[0] if th.args else None)
        if k == "str":
            sid = V.s(base.z)
            n = slen(sid)
            a = self.clamp(self.as_int(lo), n) if lo is not None else z3.IntVal(0)
            b = self.clamp(self.as_int(hi), n) if hi is not None else n
            f = z3.Function("str_slice", IntS, IntS, IntS, IntS)
            r = f(sid, a, b)
            ln = z3.If(b >= a, b - a, 0)
            st.assume(slen(r) == ln)
            j = fresh("j", IntS)
            st.assume(z3.ForAll([j], z3.Implies(z3.And(0 <= j, j < ln), sat(r, j) == sat(sid, a + j))))
            return Val(V.S(r), th=TH("str"))
        raise Unsupported(f"slice of {base}", node)

    def clamp(self, i, n):
        i2 = z3.If(i < 0, i + n, i)
        return z3.If(i2 < 0, 0, z3.If(i2 > n, n, i2))

    def ev_Lambda(self, node, st):
        return [Out("val", st, Val(py=("lambda", node, dict(st.locals), st.func)))]

    def ev_Starred(self, node, st):
        raise Unsupported("starred expression", node)

    def ev_ListComp(self, node, st):
        return self.comprehension(node, st, "list")

    def ev_SetComp(self, node, st):
        return self.comprehension(node, st, "set")

    def ev_DictComp(self, node, st):
        return self.comprehension(node, st, "dict")

    def ev_GeneratorExp(self, node, st):
        return self.comprehension(node, st, "list")
