"""
builtins.py -- models of Python builtins and of str / list / dict / set methods.

Each model is a defining axiomatisation over the encodings of sym.py.  What is NOT modelled semantically
(result is an uninterpreted value of the right type): str.split/join/replace/format/lower/strip results beyond
their length/type facts listed here, sorted() beyond "permutation + ordered by the class's __lt__" (assumed).
"""
from __future__ import annotations

import ast
from typing import Dict, List, Optional

import z3

from . import front
from .exec import NeedsContract, Out, Unsupported
from .state import ExcVal, State
from .sym import (CLS_DICT, CLS_LIST, CLS_SET, INTERN, NONE, TH, V, Val, clsof, exc_is_sub, fresh, hint_kind, mkB, mkI,
                  parse_hint, sat, slen, tat, tlen, vbool, vint, vnone, vstr_lit, is_known_exception)

IntS = z3.IntSort()
BoolS = z3.BoolSort()


def ufun(name, *sorts):
    return z3.Function(name, *sorts)


class BuiltinMixin:
    # ------------------------------------------------------------ free functions
    def builtin_call(self, st: State, name: str, args: List[Val], kwargs: Dict[str, Val], node) -> List[Out]:
        c = self.registry.get("builtins." + name)
        if c is not None:
            return self.apply_contract(st, c, None, args, kwargs, node, name)
        if name == "len":
            return [Out("val", st, vint(self.length(st, args[0], node)))]
        if name == "bool":
            return [Out("val", st, vbool(self.truthy(st, args[0]) if args else False))]
        if name == "isinstance":
            return [Out("val", st, vbool(self.isinstance_(st, args[0], args[1], node)))]
        if name == "str":
            if not args:
                return [Out("val", st, vstr_lit(""))]
            a = args[0]
            if hint_kind(a.th) == "str":
                return [Out("val", st, a)]
            if hint_kind(a.th) == "int":
                f = ufun("str_of_int", IntS, IntS)
                r = f(self.as_int(a))
                st.assume(slen(r) >= 1)
                return [Out("val", st, Val(V.S(r), th=TH("str")))]
            f = ufun("str_of", V, IntS)
            r = f(self.to_z(st, a))
            st.assume(slen(r) >= 0)
            return [Out("val", st, Val(V.S(r), th=TH("str")))]
        if name == "repr":
            f = ufun("repr_of", V, IntS)
            r = f(self.to_z(st, args[0]))
            st.assume(slen(r) >= 0)
            return [Out("val", st, Val(V.S(r), th=TH("str")))]
        if name == "int":
            a = args[0]
            if hint_kind(a.th) in ("int", "bool"):
                return [Out("val", st, vint(self.as_int(a)))]
            if hint_kind(a.th) == "str":
                # int(str): ValueError unless the text is an integer literal (uninterpreted predicate)
                isnum = ufun("str_is_int", IntS, BoolS)
                val = ufun("int_of_str", IntS, IntS)
                sid = V.s(a.z)
                outs = []
                for s2, ok in (self.branch(st, isnum(sid)) if not st.pure else [(st, True)]):
                    if ok:
                        outs.append(Out("val", s2, vint(val(sid))))
                    else:
                        outs.append(self.raise_out(s2, "ValueError", node))
                return outs
            raise Unsupported("int() of unknown", node)
        if name == "print":
            st.note(f"print @{getattr(node, 'lineno', 0)}")
            return [Out("val", st, vnone())]
        if name == "type":
            a = args[0]
            if a.py is not None and a.py[0] == "exc":
                return [Out("val", st, Val(py=("typeof", a)))]
            return [Out("val", st, Val(py=("typeof", a)))]
        if name == "list":
            if not args:
                return [Out("val", st, self.new_list(st, []))]
            return [Out("val", st, self.to_list(st, args[0], node))]
        if name == "tuple":
            if not args:
                return [Out("val", st, Val(tup=[]))]
            if args[0].tup is not None:
                return [Out("val", st, args[0])]
            return [Out("val", st, self.to_list(st, args[0], node))]
        if name == "dict":
            if not args and not kwargs:
                return [Out("val", st, self.new_dict(st, "dict"))]
            raise Unsupported("dict(...) with arguments", node)
        if name == "set":
            if not args:
                return [Out("val", st, self.new_dict(st, "set"))]
            return [Out("val", st, self.to_set(st, args[0], node))]
        if name == "range":
            lo = z3.IntVal(0)
            if len(args) == 1:
                hi = self.as_int(args[0])
            elif len(args) == 2:
                lo, hi = self.as_int(args[0]), self.as_int(args[1])
            else:
                raise Unsupported("range with step", node)
            n = z3.If(hi > lo, hi - lo, 0)
            view = {"len": lambda s: n, "get": lambda s, i: vint(z3.simplify(lo + i)), "range": (lo, hi)}
            return [Out("val", st, Val(py=("iter", view)))]
        if name == "enumerate":
            base = self.iter_view(st, args[0], node)
            start = self.as_int(args[1]) if len(args) > 1 else (self.as_int(kwargs["start"]) if "start" in kwargs else z3.IntVal(0))
            view = {"len": base["len"], "get": lambda s, i: Val(tup=[vint(z3.simplify(start + i)), base["get"](s, i)])}
            return [Out("val", st, Val(py=("iter", view)))]
        if name == "zip":
            vs = [self.iter_view(st, a, node) for a in args]
            def ln(s):
                m = vs[0]["len"](s)
                for v in vs[1:]:
                    l2 = v["len"](s)
                    m = z3.If(l2 < m, l2, m)
                return m
            view = {"len": ln, "get": lambda s, i: Val(tup=[v["get"](s, i) for v in vs])}
            return [Out("val", st, Val(py=("iter", view)))]
        if name == "reversed":
            base = self.iter_view(st, args[0], node)
            view = {"len": base["len"], "get": lambda s, i: base["get"](s, base["len"](s) - 1 - i)}
            return [Out("val", st, Val(py=("iter", view)))]
        if name == "filter":
            return [Out("val", st, self.filter_view(st, args[0], args[1], node))]
        if name in ("min", "max"):
            return self.minmax(st, name, args, node)
        if name == "sorted":
            if any(k not in ("reverse", "key") for k in kwargs):
                raise Unsupported("sorted(...) keyword", node)
            by_abs = False
            if "key" in kwargs:
                if kwargs["key"].py != ("builtin", "abs"):
                    raise Unsupported("sorted(key=...) other than key=abs", node)
                by_abs = True
            rev = self.truthy(st, kwargs["reverse"]) if "reverse" in kwargs else None
            return [Out("val", st, self.sorted_(st, args[0], node, rev, by_abs))]
        if name == "abs":
            x = self.as_int(args[0])
            return [Out("val", st, vint(z3.If(x < 0, -x, x)))]
        if name == "next":
            it = args[0]
            view = self.iter_view(st, it, node)
            outs = []
            for s2, nonempty in self.branch(st, view["len"](st) > 0):
                if nonempty:
                    outs.append(Out("val", s2, view["get"](s2, z3.IntVal(0))))
                elif len(args) > 1:
                    outs.append(Out("val", s2, args[1]))
                else:
                    outs.append(self.raise_out(s2, "StopIteration", node))
            return outs
        if name == "any" or name == "all":
            view = self.iter_view(st, args[0], node)
            j = fresh("j", IntS)
            n = view["len"](st)
            npc = len(st.pc)
            body = self.truthy(st, view["get"](st, j))
            side = st.pc[npc:]
            del st.pc[npc:]
            if name == "any":
                return [Out("val", st, vbool(z3.Exists([j], z3.And([0 <= j, j < n] + side + [body]))))]
            return [Out("val", st, vbool(z3.ForAll([j], z3.Implies(z3.And([0 <= j, j < n] + side), body))))]
        if name == "id" or name == "hash":
            raise Unsupported(f"{name}() makes behaviour address/hash dependent", node)
        if name == "getattr" or name == "setattr" or name == "hasattr":
            raise Unsupported(f"{name}()", node)
        if is_known_exception(name):
            return self.construct_exception(st, name, args, kwargs, node)
        raise NeedsContract(f"builtin {name}", node)

    def modattr_call(self, st: State, name: str, args: List[Val], kwargs, node) -> Optional[List[Out]]:
        if name == "typing.cast":
            return [Out("val", st, args[1])]
        if name in ("copy.deepcopy", "copy.copy"):
            raise NeedsContract(name, node)
        return None

    def length(self, st: State, v: Val, node):
        if v.tup is not None:
            return z3.IntVal(len(v.tup))
        if v.py is not None and v.py[0] == "iter":
            return v.py[1]["len"](st)
        k = hint_kind(v.th.strip_optional() if v.th else None)
        if k == "list":
            return st.hread("$llen", V.r(v.z))
        if k in ("dict", "set"):
            return st.hread("$dlen", V.r(v.z))
        if k == "str":
            return slen(V.s(v.z))
        if k == "tuple":
            return tlen(V.t(v.z))
        if v.z is not None and st.pure:
            z = v.z
            return z3.If(V.is_S(z), slen(V.s(z)), z3.If(V.is_T(z), tlen(V.t(z)),
                         z3.If(clsof(V.r(z)) == CLS_LIST, st.hread("$llen", V.r(z)), st.hread("$dlen", V.r(z)))))
        raise Unsupported(f"len of {v}", node)

    def isinstance_(self, st: State, v: Val, cls: Val, node):
        names = []
        items = cls.tup if cls.tup is not None else [cls]
        for c in items:
            if c.py is None:
                raise Unsupported("isinstance with dynamic class", node)
            names.append(c.py[1] if c.py[0] == "builtin" else c.py[1].name)
        if v.py is not None and v.py[0] == "exc":
            e: ExcVal = v.py[1]
            return z3.Or([exc_is_sub(e.cls_expr(), n) for n in names if is_known_exception(n)] or [z3.BoolVal(False)])
        parts = []
        z = self.to_z(st, v)
        for n in names:
            if n == "int":
                parts.append(V.is_I(z))
            elif n == "bool":
                parts.append(V.is_B(z))
            elif n == "str":
                parts.append(V.is_S(z))
            elif n in ("list", "dict", "set"):
                parts.append(z3.And(V.is_R(z), clsof(V.r(z)) == {"list": CLS_LIST, "dict": CLS_DICT, "set": CLS_SET}[n]))
            elif n == "tuple":
                parts.append(V.is_T(z))
            else:
                # a value whose static type is a (subclass of the) tested repository class is an instance of it
                ci = self.class_of_val(st, v) if v.th is not None else None
                if ci is not None and any(c.name == n for c in front.class_mro(ci)):
                    parts.append(z != NONE if v.th.name == "Optional" else z3.BoolVal(True))
                    continue
                sub = ufun("isinst_" + n, IntS, BoolS)
                parts.append(z3.And(V.is_R(z), sub(clsof(V.r(z)))))
        return z3.Or(parts)

    # ------------------------------------------------------------ conversions
    def to_list(self, st: State, v: Val, node) -> Val:
        if v.tup is not None:
            return self.new_list(st, v.tup)
        view = self.iter_view(st, v, node)
        n = view["len"](st)
        items = fresh("lst", z3.ArraySort(IntS, V))
        j = fresh("j", IntS)
        npc = len(st.pc)
        e = view["get"](st, j)
        side = st.pc[npc:]
        del st.pc[npc:]
        st.assume(z3.ForAll([j], z3.Implies(z3.And(0 <= j, j < n), z3.And(side + [z3.Select(items, j) == self.to_z(st, e)]))))
        return self.new_list_sym(st, items, n, e.th)

    def to_set(self, st: State, v: Val, node) -> Val:
        view = self.iter_view(st, v, node)
        n = view["len"](st)
        r = st.new_ref()
        st.assume(clsof(r) == CLS_SET)
        dom = fresh("sdom", z3.ArraySort(V, BoolS))
        j = fresh("j", IntS)
        x = fresh("x", V)
        npc = len(st.pc)
        e = view["get"](st, j)
        side = st.pc[npc:]
        del st.pc[npc:]
        ez = self.to_z(st, e)
        st.assume(z3.ForAll([j], z3.Implies(z3.And(0 <= j, j < n), z3.Select(dom, ez))))
        st.assume(z3.ForAll([x], z3.Implies(z3.Select(dom, x), z3.Exists([j], z3.And(0 <= j, j < n, ez == x)))))
        st.hwrite("$ddom", r, dom)
        m = fresh("slen", IntS)
        st.assume(m >= 0)
        st.assume(m <= n)
        st.assume(z3.Implies(n > 0, m > 0))
        st.hwrite("$dlen", r, m)
        return Val(V.R(r), th=TH("Set", [e.th or TH("Any")]))

    def filter_view(self, st: State, fn: Val, it: Val, node) -> Val:
        """filter(f, xs): an order-preserving subsequence; modelled as a fresh list with the defining facts."""
        base = self.iter_view(st, it, node)
        n = base["len"](st)
        items = fresh("flt", z3.ArraySort(IntS, V))
        m = fresh("fltlen", IntS)
        src = z3.Function(f"fltsrc!{str(m)}", IntS, IntS)  # strictly increasing index map
        j, k = fresh("j", IntS), fresh("k", IntS)
        st.assume(m >= 0)
        st.assume(m <= n)
        npc = len(st.pc)
        e = base["get"](st, src(j))
        pj = self.truthy_call(st, fn, e, node)
        side = st.pc[npc:]
        del st.pc[npc:]
        st.assume(z3.ForAll([j], z3.Implies(z3.And(0 <= j, j < m),
                                            z3.And(side + [0 <= src(j), src(j) < n, z3.Select(items, j) == self.to_z(st, e), pj]))))
        st.assume(z3.ForAll([j, k], z3.Implies(z3.And(0 <= j, j < k, k < m), src(j) < src(k))))
        # completeness: every element satisfying f appears
        inv = z3.Function(f"fltinv!{str(m)}", IntS, IntS)
        npc = len(st.pc)
        e2 = base["get"](st, k)
        pk = self.truthy_call(st, fn, e2, node)
        side2 = st.pc[npc:]
        del st.pc[npc:]
        st.assume(z3.ForAll([k], z3.Implies(z3.And([0 <= k, k < n] + side2 + [pk]),
                                            z3.And(0 <= inv(k), inv(k) < m, src(inv(k)) == k))))
        eth = e.th
        lst = self.new_list_sym(st, items, m, eth)
        return lst

    def truthy_call(self, st: State, fn: Val, arg: Val, node):
        was = st.pure
        st.pure = True
        try:
            outs = self.call_value(st, fn, [arg], {}, node, "<lambda>")
        finally:
            st.pure = was
        if len(outs) != 1 or outs[0].kind != "val":
            raise Unsupported("predicate forked", node)
        return self.truthy(st, outs[0].val)

    def minmax(self, st: State, name: str, args: List[Val], node) -> List[Out]:
        if len(args) >= 2:
            xs = [self.as_int(a) for a in args]
            m = xs[0]
            for x in xs[1:]:
                m = z3.If(x < m, x, m) if name == "min" else z3.If(x > m, x, m)
            return [Out("val", st, vint(z3.simplify(m)))]
        view = self.iter_view(st, args[0], node)
        n = view["len"](st)
        outs = []
        for s2, empty in (self.branch(st, n <= 0) if not st.pure else [(st, False)]):
            if empty:
                outs.append(self.raise_out(s2, "ValueError", node))
                continue
            m = fresh(name, IntS)
            j = fresh("j", IntS)
            npc = len(s2.pc)
            e = self.as_int(view["get"](s2, j))
            side = s2.pc[npc:]
            del s2.pc[npc:]
            cmp_ = (m <= e) if name == "min" else (m >= e)
            s2.assume(z3.ForAll([j], z3.Implies(z3.And([0 <= j, j < n] + side), cmp_)))
            s2.assume(z3.Exists([j], z3.And([0 <= j, j < n] + side + [m == e])))
            outs.append(Out("val", s2, vint(m)))
        return outs

    def sorted_(self, st: State, v: Val, node, rev=None, by_abs=False) -> Val:
        """sorted(xs): a permutation of xs (assumed contract; ordering facts only for ints / strings)."""
        keyview = v.py[1] if (v.py is not None and v.py[0] == "iter" and "dom" in v.py[1]) else None
        if keyview is None and v.tup is None and hint_kind(v.th.strip_optional() if v.th is not None else None) in ("dict", "set"):
            keyview = self.keys_view(st, v, node)
            v = Val(py=("iter", keyview), th=v.th)
        res = self._sorted(st, v, node, rev, by_abs)
        if keyview is not None:
            # the sorted list of a key set enumerates it without repetition: position function in both directions
            items = st.hread("$litems", V.r(res.z))
            dom, n = keyview["dom"], keyview["n"]
            spos = z3.Function(f"sortedpos!{items}", V, IntS)   # `items` is a fresh, uniquely named constant
            x, j = fresh("x", V), fresh("j", IntS)
            st.assume(z3.ForAll([x], z3.Implies(z3.Select(dom, x), z3.And(0 <= spos(x), spos(x) < n, z3.Select(items, spos(x)) == x))))
            st.assume(z3.ForAll([j], z3.Implies(z3.And(0 <= j, j < n), z3.And(z3.Select(dom, z3.Select(items, j)), spos(z3.Select(items, j)) == j))))
        return res

    def _sorted(self, st: State, v: Val, node, rev=None, by_abs=False) -> Val:
        src = self.to_list(st, v, node) if (v.tup is not None or hint_kind(v.th) != "list") else v
        r0 = V.r(src.z)
        n = st.hread("$llen", r0)
        a0 = st.hread("$litems", r0)
        items = fresh("sorted", z3.ArraySort(IntS, V))
        perm = z3.Function(f"perm!{str(items)}", IntS, IntS)
        inv = z3.Function(f"perminv!{str(items)}", IntS, IntS)
        j, k = fresh("j", IntS), fresh("k", IntS)
        st.assume(z3.ForAll([j], z3.Implies(z3.And(0 <= j, j < n),
                                            z3.And(0 <= perm(j), perm(j) < n, inv(perm(j)) == j,
                                                   z3.Select(items, j) == z3.Select(a0, perm(j))))))
        st.assume(z3.ForAll([k], z3.Implies(z3.And(0 <= k, k < n), z3.And(0 <= inv(k), inv(k) < n, perm(inv(k)) == k))))
        eth = src.th.args[0] if src.th and src.th.args else None
        ek = hint_kind(eth)
        if ek == "int":
            kj, kk = V.i(z3.Select(items, j)), V.i(z3.Select(items, k))
            if by_abs:
                kj, kk = z3.If(kj < 0, -kj, kj), z3.If(kk < 0, -kk, kk)
            asc = kj <= kk
            if rev is not None:
                asc = z3.If(rev, kj >= kk, asc)
            st.assume(z3.ForAll([j, k], z3.Implies(z3.And(0 <= j, j < k, k < n), asc)))
        elif ek == "str":
            lt = z3.Function("str_lt", IntS, IntS, BoolS)
            if rev is not None or by_abs:
                raise Unsupported("sorted(strings, reverse=... / key=...)", node)
            st.assume(z3.ForAll([j, k], z3.Implies(z3.And(0 <= j, j < k, k < n),
                                                   z3.Not(lt(V.s(z3.Select(items, k)), V.s(z3.Select(items, j)))))))
        return self.new_list_sym(st, items, n, eth)

    def comprehension(self, node, st: State, kind: str) -> List[Out]:
        if len(node.generators) != 1 or node.generators[0].is_async:
            raise Unsupported("nested comprehension", node)
        g = node.generators[0]
        outs = []
        for o in self.ev(g.iter, st):
            if o.kind == "raise":
                outs.append(o)
                continue
            s = o.st
            itv = o.val
            if itv.tup is not None:
                itv = self.new_list(s, itv.tup)
            view = self.iter_view(s, itv, node)
            n = view["len"](s)
            j = fresh("j", IntS)
            saved = dict(s.locals)
            was = s.pure
            s.pure = True
            try:
                npc = len(s.pc)
                e = view["get"](s, j)
                for a in self.assign(s, g.target, e, node):
                    pass
                conds = [self.truthy(s, self.ev1(c, s)) for c in g.ifs]
                if kind == "dict":
                    kv = self.ev1(node.key, s)
                    vv = self.ev1(node.value, s)
                else:
                    ev_ = self.ev1(node.elt, s)
                side = s.pc[npc:]
                del s.pc[npc:]
            finally:
                s.pure = was
                s.locals = saved
            if kind == "list" and not conds:
                items = fresh("comp", z3.ArraySort(IntS, V))
                s.assume(z3.ForAll([j], z3.Implies(z3.And(0 <= j, j < n), z3.And(side + [z3.Select(items, j) == self.to_z(s, ev_)]))))
                outs.append(Out("val", s, self.new_list_sym(s, items, n, ev_.th)))
            elif kind == "dict" and not conds:
                d = self.new_dict(s, "dict", kv.th, vv.th)
                r = V.r(d.z)
                dom = fresh("cdom", z3.ArraySort(V, BoolS))
                val = fresh("cval", z3.ArraySort(V, V))
                x = fresh("x", V)
                kz, vz = self.to_z(s, kv), self.to_z(s, vv)
                s.assume(z3.ForAll([j], z3.Implies(z3.And(0 <= j, j < n), z3.And(side + [z3.Select(dom, kz)]))))
                s.assume(z3.ForAll([x], z3.Implies(z3.Select(dom, x), z3.Exists([j], z3.And([0 <= j, j < n] + side + [kz == x, z3.Select(val, x) == vz])))))
                m = fresh("clen", IntS)
                s.assume(z3.And(m >= 0, m <= n, z3.Implies(n > 0, m > 0)))
                s.hwrite("$ddom", r, dom)
                s.hwrite("$dval", r, val)
                s.hwrite("$dlen", r, m)
                outs.append(Out("val", s, d))
            elif kind == "set" and not conds:
                r = s.new_ref()
                s.assume(clsof(r) == CLS_SET)
                dom = fresh("scdom", z3.ArraySort(V, BoolS))
                x = fresh("x", V)
                ez = self.to_z(s, ev_)
                s.assume(z3.ForAll([j], z3.Implies(z3.And(0 <= j, j < n), z3.And(side + [z3.Select(dom, ez)]))))
                s.assume(z3.ForAll([x], z3.Implies(z3.Select(dom, x), z3.Exists([j], z3.And([0 <= j, j < n] + side + [ez == x])))))
                m = fresh("sclen", IntS)
                s.assume(z3.And(m >= 0, m <= n, z3.Implies(n > 0, m > 0)))
                s.hwrite("$ddom", r, dom)
                s.hwrite("$dlen", r, m)
                outs.append(Out("val", s, Val(V.R(r), th=TH("Set", [ev_.th or TH("Any")]))))
            else:
                raise Unsupported(f"{kind} comprehension with filter", node)
        return outs

    # ------------------------------------------------------------ methods of builtin types
    def builtin_method(self, st: State, recv: Val, name: str, kind: str, args: List[Val], kwargs, node) -> List[Out]:
        m = getattr(self, f"bm_{kind}_{name}", None)
        if m is None:
            raise Unsupported(f"{kind}.{name}()", node)
        return m(st, recv, args, kwargs, node)

    # ---- list
    def bm_list_append(self, st, recv, args, kwargs, node):
        r = V.r(recv.z)
        n = st.hread("$llen", r)
        st.hwrite("$litems", r, z3.Store(st.hread("$litems", r), n, self.to_z(st, args[0])))
        st.hwrite("$llen", r, z3.simplify(n + 1))
        if recv.th is not None and recv.th.args and recv.th.args[0].name == "Any" and args[0].th is not None:
            recv.th.args[0] = args[0].th
        return [Out("val", st, vnone())]

    def bm_list_append_if(self, st, recv, args, kwargs, node):
        """specification-only: xs.append_if(cond, x)  ==  if cond: xs.append(x)   (no fork)"""
        r = V.r(recv.z)
        c = self.truthy(st, args[0])
        n = st.hread("$llen", r)
        items = st.hread("$litems", r)
        st.hwrite("$litems", r, z3.If(c, z3.Store(items, n, self.to_z(st, args[1])), items))
        st.hwrite("$llen", r, z3.simplify(z3.If(c, n + 1, n)))
        return [Out("val", st, vnone())]

    def bm_list_extend(self, st, recv, args, kwargs, node):
        r = V.r(recv.z)
        other = args[0]
        if other.tup is not None:
            for e in other.tup:
                self.bm_list_append(st, recv, [e], {}, node)
            return [Out("val", st, vnone())]
        view = self.iter_view(st, other, node)
        n = st.hread("$llen", r)
        m = view["len"](st)
        old = st.hread("$litems", r)
        new = fresh("ext", z3.ArraySort(IntS, V))
        j = fresh("j", IntS)
        st.assume(z3.ForAll([j], z3.Implies(z3.And(0 <= j, j < n), z3.Select(new, j) == z3.Select(old, j))))
        npc = len(st.pc)
        e = view["get"](st, j - n)
        side = st.pc[npc:]
        del st.pc[npc:]
        # absolute index on the side of the new array: its select terms are the triggers
        st.assume(z3.ForAll([j], z3.Implies(z3.And(n <= j, j < n + m), z3.And(side + [z3.Select(new, j) == self.to_z(st, e)]))))
        st.hwrite("$litems", r, new)
        st.hwrite("$llen", r, z3.simplify(n + m))
        return [Out("val", st, vnone())]

    def bm_list_clear(self, st, recv, args, kwargs, node):
        st.hwrite("$llen", V.r(recv.z), z3.IntVal(0))
        return [Out("val", st, vnone())]

    def bm_list_copy(self, st, recv, args, kwargs, node):
        return [Out("val", st, self.slice_val(st, recv, None, None, None, node))]

    def bm_list_index(self, st, recv, args, kwargs, node):
        r = V.r(recv.z)
        n = st.hread("$llen", r)
        items = st.hread("$litems", r)
        x = self.to_z(st, args[0])
        outs = []
        j = fresh("j", IntS)
        present = z3.Exists([j], z3.And(0 <= j, j < n, z3.Select(items, j) == x))
        for s2, ok in self.branch(st, present):
            if ok:
                i = fresh("idx", IntS)
                s2.assume(z3.And(0 <= i, i < n, z3.Select(items, i) == x))
                k = fresh("k", IntS)
                s2.assume(z3.ForAll([k], z3.Implies(z3.And(0 <= k, k < i), z3.Select(items, k) != x)))
                outs.append(Out("val", s2, vint(i)))
            else:
                outs.append(self.raise_out(s2, "ValueError", node))
        return outs

    def bm_list_remove(self, st, recv, args, kwargs, node):
        """list.remove(x): delete the first element equal to x (identity/value equality as in list.index)."""
        outs = []
        for o in self.bm_list_index(st, recv, args, kwargs, node):
            if o.kind != "val":
                outs.append(o)
                continue
            for o2 in self.list_delete(o.st, recv, o.val, node):
                outs.append(Out("val", o2.st, vnone()) if o2.kind == "normal" else o2)
        return outs

    def bm_list_pop(self, st, recv, args, kwargs, node):
        r = V.r(recv.z)
        n = st.hread("$llen", r)
        outs = []
        if args:
            raise Unsupported("list.pop(i)", node)
        for s2, ok in self.branch(st, n > 0):
            if ok:
                eth = recv.th.args[0] if recv.th and recv.th.args and recv.th.args[0].name != "Any" else None
                v = self.elem_typed(s2, z3.Select(s2.hread("$litems", r), n - 1), eth)
                s2.hwrite("$llen", r, z3.simplify(n - 1))
                outs.append(Out("val", s2, v))
            else:
                outs.append(self.raise_out(s2, "IndexError", node))
        return outs

    def bm_list_insert(self, st, recv, args, kwargs, node):
        r = V.r(recv.z)
        n = st.hread("$llen", r)
        i = self.clamp(self.as_int(args[0]), n)
        old = st.hread("$litems", r)
        new = fresh("ins", z3.ArraySort(IntS, V))
        j = fresh("j", IntS)
        st.assume(z3.ForAll([j], z3.Implies(z3.And(0 <= j, j < i), z3.Select(new, j) == z3.Select(old, j))))
        st.assume(z3.Select(new, i) == self.to_z(st, args[1]))
        st.assume(z3.ForAll([j], z3.Implies(z3.And(i < j, j <= n), z3.Select(new, j) == z3.Select(old, j - 1))))
        st.hwrite("$litems", r, new)
        st.hwrite("$llen", r, z3.simplify(n + 1))
        return [Out("val", st, vnone())]

    def list_delete(self, st, recv, idx, node) -> List[Out]:
        r = V.r(recv.z)
        n = st.hread("$llen", r)
        i = self.norm_index(self.as_int(idx), n)
        outs = []
        for s2, ok in self.branch(st, z3.And(0 <= i, i < n)):
            if not ok:
                outs.append(self.raise_out(s2, "IndexError", node))
                continue
            old = s2.hread("$litems", r)
            new = fresh("del", z3.ArraySort(IntS, V))
            j = fresh("j", IntS)
            s2.assume(z3.ForAll([j], z3.Implies(z3.And(0 <= j, j < i), z3.Select(new, j) == z3.Select(old, j))))
            s2.assume(z3.ForAll([j], z3.Implies(z3.And(i <= j, j < n - 1), z3.Select(new, j) == z3.Select(old, j + 1))))
            s2.hwrite("$litems", r, new)
            s2.hwrite("$llen", r, z3.simplify(n - 1))
            outs.append(Out("normal", s2))
        return outs

    def bm_list_sort(self, st, recv, args, kwargs, node):
        if kwargs:
            raise Unsupported("list.sort(key=...)", node)
        s = self.sorted_(st, recv, node)
        r = V.r(recv.z)
        st.hwrite("$litems", r, st.hread("$litems", V.r(s.z)))
        return [Out("val", st, vnone())]

    # ---- dict
    def bm_dict_get(self, st, recv, args, kwargs, node):
        r = V.r(recv.z)
        kz = self.to_z(st, args[0])
        present = z3.Select(st.hread("$ddom", r), kz)
        dflt = self.to_z(st, args[1]) if len(args) > 1 else NONE
        th = recv.th.args[1] if recv.th and len(recv.th.args) > 1 and recv.th.args[1].name != "Any" else None
        if st.pure:
            return [Out("val", st, Val(z3.If(present, z3.Select(st.hread("$dval", r), kz), dflt), th=TH("Optional", [th]) if th else None))]
        outs = []
        for s2, ok in self.branch(st, present):
            if ok:
                outs.append(Out("val", s2, self.elem_typed(s2, z3.Select(s2.hread("$dval", r), kz), th)))
            else:
                outs.append(Out("val", s2, args[1] if len(args) > 1 else vnone()))
        return outs

    def bm_dict_keys(self, st, recv, args, kwargs, node):
        return [Out("val", st, Val(py=("iter", self.keys_view(st, recv, node))))]

    def bm_dict_items(self, st, recv, args, kwargs, node):
        kv = self.keys_view(st, recv, node)
        r = V.r(recv.z)
        vth = recv.th.args[1] if recv.th and len(recv.th.args) > 1 and recv.th.args[1].name != "Any" else None

        def get(s, i):
            k = kv["get"](s, i)
            return Val(tup=[k, self.elem_typed(s, z3.Select(s.hread("$dval", r), self.to_z(s, k)), vth)])

        return [Out("val", st, Val(py=("iter", {"len": kv["len"], "get": get})))]

    def bm_dict_values(self, st, recv, args, kwargs, node):
        kv = self.keys_view(st, recv, node)
        r = V.r(recv.z)
        vth = recv.th.args[1] if recv.th and len(recv.th.args) > 1 and recv.th.args[1].name != "Any" else None
        return [Out("val", st, Val(py=("iter", {"len": kv["len"], "get": lambda s, i: self.elem_typed(
            s, z3.Select(s.hread("$dval", r), self.to_z(s, kv["get"](s, i))), vth)})))]

    def bm_dict_clear(self, st, recv, args, kwargs, node):
        r = V.r(recv.z)
        st.hwrite("$ddom", r, z3.K(V, z3.BoolVal(False)))
        st.hwrite("$dlen", r, z3.IntVal(0))
        return [Out("val", st, vnone())]

    # ---- set
    def bm_set_add(self, st, recv, args, kwargs, node):
        self.dict_store(st, recv, args[0], None)
        return [Out("val", st, vnone())]

    def bm_set_add_if(self, st, recv, args, kwargs, node):
        """specification-only: s.add_if(cond, x)  ==  if cond: s.add(x)   (no fork)"""
        r = V.r(recv.z)
        c = self.truthy(st, args[0])
        kz = self.to_z(st, args[1])
        dom = st.hread("$ddom", r)
        present = z3.Select(dom, kz)
        st.hwrite("$dlen", r, z3.simplify(z3.If(z3.And(c, z3.Not(present)), st.hread("$dlen", r) + 1, st.hread("$dlen", r))))
        st.hwrite("$ddom", r, z3.If(c, z3.Store(dom, kz, True), dom))
        return [Out("val", st, vnone())]

    def bm_set_discard(self, st, recv, args, kwargs, node):
        r = V.r(recv.z)
        kz = self.to_z(st, args[0])
        dom = st.hread("$ddom", r)
        present = z3.Select(dom, kz)
        st.hwrite("$dlen", r, z3.simplify(z3.If(present, st.hread("$dlen", r) - 1, st.hread("$dlen", r))))
        st.hwrite("$ddom", r, z3.Store(dom, kz, False))
        return [Out("val", st, vnone())]

    def bm_set_clear(self, st, recv, args, kwargs, node):
        return self.bm_dict_clear(st, recv, args, kwargs, node)

    # ---- str (uninterpreted unless stated)
    def _str_fun(self, st, fname, recv, extra_int_args=(), result="str"):
        sorts = [IntS] * (1 + len(extra_int_args))
        if result == "str":
            f = ufun(fname, *(sorts + [IntS]))
            r = f(V.s(recv.z), *extra_int_args)
            st.assume(slen(r) >= 0)
            return Val(V.S(r), th=TH("str"))
        if result == "bool":
            f = ufun(fname, *(sorts + [BoolS]))
            return vbool(f(V.s(recv.z), *extra_int_args))
        f = ufun(fname, *(sorts + [IntS]))
        return vint(f(V.s(recv.z), *extra_int_args))

    def bm_str_lower(self, st, recv, args, kwargs, node):
        v = self._str_fun(st, "str_lower", recv)
        low = ufun("str_lower", IntS, IntS)
        st.assume(slen(V.s(v.z)) == slen(V.s(recv.z)))
        st.assume(low(V.s(v.z)) == V.s(v.z))  # idempotent
        return [Out("val", st, v)]

    def bm_str_upper(self, st, recv, args, kwargs, node):
        v = self._str_fun(st, "str_upper", recv)
        st.assume(slen(V.s(v.z)) == slen(V.s(recv.z)))
        return [Out("val", st, v)]

    def bm_str_strip(self, st, recv, args, kwargs, node):
        ex = [V.s(a.z) for a in args]
        v = self._str_fun(st, f"str_strip{len(ex)}", recv, ex)
        st.assume(slen(V.s(v.z)) <= slen(V.s(recv.z)))
        return [Out("val", st, v)]

    def bm_str_rstrip(self, st, recv, args, kwargs, node):
        ex = [V.s(a.z) for a in args]
        v = self._str_fun(st, f"str_rstrip{len(ex)}", recv, ex)
        st.assume(slen(V.s(v.z)) <= slen(V.s(recv.z)))
        return [Out("val", st, v)]

    def bm_str_lstrip(self, st, recv, args, kwargs, node):
        ex = [V.s(a.z) for a in args]
        v = self._str_fun(st, f"str_lstrip{len(ex)}", recv, ex)
        st.assume(slen(V.s(v.z)) <= slen(V.s(recv.z)))
        return [Out("val", st, v)]

    def bm_str_startswith(self, st, recv, args, kwargs, node):
        if len(args) != 1 or args[0].tup is not None:
            raise Unsupported("startswith form", node)
        a, b = V.s(recv.z), V.s(args[0].z)
        j = fresh("j", IntS)
        return [Out("val", st, vbool(z3.And(slen(b) <= slen(a),
                                            z3.ForAll([j], z3.Implies(z3.And(0 <= j, j < slen(b)), sat(a, j) == sat(b, j))))))]

    def bm_str_endswith(self, st, recv, args, kwargs, node):
        if len(args) != 1 or args[0].tup is not None:
            raise Unsupported("endswith form", node)
        a, b = V.s(recv.z), V.s(args[0].z)
        j = fresh("j", IntS)
        off = slen(a) - slen(b)
        return [Out("val", st, vbool(z3.And(slen(b) <= slen(a),
                                            z3.ForAll([j], z3.Implies(z3.And(0 <= j, j < slen(b)), sat(a, off + j) == sat(b, j))))))]

    def bm_str_split(self, st, recv, args, kwargs, node):
        ex = [V.s(a.z) if hint_kind(a.th) == "str" else V.i(a.z) for a in args]
        f = ufun(f"str_split{len(ex)}", *([IntS] * (1 + len(ex)) + [IntS]))  # id of the result list content
        lid = f(V.s(recv.z), *ex)
        cnt = ufun("split_len", IntS, IntS)
        itm = ufun("split_item", IntS, IntS, IntS)
        items = fresh("split", z3.ArraySort(IntS, V))
        j = fresh("j", IntS)
        st.assume(cnt(lid) >= 1)
        st.assume(z3.ForAll([j], z3.Implies(z3.And(0 <= j, j < cnt(lid)),
                                            z3.And(z3.Select(items, j) == V.S(itm(lid, j)), slen(itm(lid, j)) >= 0))))
        return [Out("val", st, self.new_list_sym(st, items, cnt(lid), TH("str")))]

    def bm_str_join(self, st, recv, args, kwargs, node):
        a = args[0]
        if a.tup is not None:
            a = self.new_list(st, a.tup)
        if a.py is not None and a.py[0] == "iter":
            a = self.to_list(st, a, node)
        r = V.r(a.z)
        f = ufun("str_join", IntS, z3.ArraySort(IntS, V), IntS, IntS)
        res = f(V.s(recv.z), st.hread("$litems", r), st.hread("$llen", r))
        st.assume(slen(res) >= 0)
        return [Out("val", st, Val(V.S(res), th=TH("str")))]

    def bm_str_replace(self, st, recv, args, kwargs, node):
        v = self._str_fun(st, "str_replace", recv, [V.s(args[0].z), V.s(args[1].z)])
        return [Out("val", st, v)]

    def bm_str_find(self, st, recv, args, kwargs, node):
        ex = [V.s(args[0].z)] + [self.as_int(a) for a in args[1:]]
        v = self._str_fun(st, f"str_find{len(ex)}", recv, ex, result="int")
        st.assume(z3.And(V.i(v.z) >= -1, V.i(v.z) < z3.If(slen(V.s(recv.z)) > 0, slen(V.s(recv.z)), 1)))
        return [Out("val", st, v)]

    def bm_str_isdigit(self, st, recv, args, kwargs, node):
        return [Out("val", st, self._str_fun(st, "str_isdigit", recv, result="bool"))]

    def bm_str_format(self, st, recv, args, kwargs, node):
        f = fresh("fmt", IntS)
        st.assume(slen(f) >= 0)
        return [Out("val", st, Val(V.S(f), th=TH("str")))]

    def bm_str_count(self, st, recv, args, kwargs, node):
        v = self._str_fun(st, "str_count", recv, [V.s(args[0].z)], result="int")
        st.assume(V.i(v.z) >= 0)
        return [Out("val", st, v)]
