"""
calls.py -- the modular call rule: contract > builtin model > inlining > error (needs contract).
"""
from __future__ import annotations

import ast
from typing import Dict, List, Optional, Tuple

import z3

from . import front
from .exec import NeedsContract, Out, Unsupported
from .spec import Contract, Raises
from .state import ExcVal, State
from .sym import (CLS_DICT, CLS_LIST, CLS_SET, INTERN, NONE, TH, V, Val, clsof, exc_id, exc_is_sub, exc_subtree_ids,
                  fresh, hint_kind, is_known_exception, mkB, mkI, parse_hint, sat, slen, tat, tlen, vbool, vint, vnone,
                  vstr_lit)

IntS = z3.IntSort()


def exc_canon_name(n: str) -> str:
    from .sym import exc_canon

    return exc_canon(n)


class CallMixin:
    def ev_Call(self, node: ast.Call, st: State) -> List[Out]:
        if front.is_logging_call(node):
            return [Out("val", st, vnone())]
        # spec functions and cast are handled on the syntax
        if isinstance(node.func, ast.Name) and st.pure and node.func.id in getattr(self, "lets", {}):
            lfn, lth = self.lets[node.func.id]
            a0 = self.ev1(node.args[0], st)
            return [Out("val", st, Val(lfn(self.as_int(a0)), th=lth))]
        if isinstance(node.func, ast.Name):
            fn = node.func.id
            if fn == "cast" and len(node.args) == 2:
                th_c = parse_hint(node.args[0])
                outs_c = self.ev(node.args[1], st)
                if th_c is not None and hint_kind(th_c) == "obj":
                    for o_c in outs_c:
                        if o_c.kind == "val" and o_c.val is not None and o_c.val.z is not None and o_c.val.tup is None:
                            o_c.val = Val(o_c.val.z, th=th_c)   # typing.cast: same value, narrower static class
                return outs_c
            if fn in self.SPEC_FUNCS and st.pure:
                return [Out("val", st, self.spec_call(fn, node, st))]
            if fn == "next" and len(node.args) == 2 and isinstance(node.args[0], ast.GeneratorExp):
                r = self.first_match_in_range(node, st)
                if r is not None:
                    return r
        if any(isinstance(a, ast.Starred) for a in node.args) or any(k.arg is None for k in node.keywords):
            raise Unsupported("*args/**kwargs call", node)
        # per-function call-site override by source text
        text = self.src_text(node.func)
        override = None
        root = getattr(self, "root_contract", None)
        src = st.contract if (st.contract is not None and text in st.contract.calls) else (root if (root is not None and text in root.calls) else None)
        if src is not None:
            override = src.calls[text]
            if isinstance(override, str):
                override = self.registry[override]
            elif isinstance(override, tuple):
                import dataclasses

                base_c = self.registry[override[0]]
                new_raises = base_c.raises
                if len(override) > 2:
                    # (key, effects on normal return, effects when an Exception (not SystemExit) is raised)
                    new_raises = [dataclasses.replace(rz, effects=list(rz.effects) + (list(override[2]) if rz.exc != "SystemExit" else []))
                                  for rz in base_c.raises]
                override = dataclasses.replace(base_c, effects=list(base_c.effects) + list(override[1]), raises=new_raises)
        # evaluate callee and arguments
        outs: List[Out] = []
        if override is not None:
            # receiver expression is still evaluated (for `self.x.m`), but only its base
            recv_nodes = [node.func.value] if isinstance(node.func, ast.Attribute) else []
            res, raises = self.ev_list(recv_nodes + list(node.args) + [k.value for k in node.keywords], st)
            outs.extend(raises)
            for s, vals in res:
                recv = vals[0] if recv_nodes else None
                rest = vals[1:] if recv_nodes else vals
                args = rest[: len(node.args)]
                kwargs = {k.arg: v for k, v in zip(node.keywords, rest[len(node.args):])}
                outs.extend(self.apply_contract(s, override, recv, args, kwargs, node, text))
            return outs
        for fo in self.ev(node.func, st):
            if fo.kind == "raise":
                outs.append(fo)
                continue
            res, raises = self.ev_list(list(node.args) + [k.value for k in node.keywords], fo.st)
            outs.extend(raises)
            for s, vals in res:
                args = vals[: len(node.args)]
                kwargs = {k.arg: v for k, v in zip(node.keywords, vals[len(node.args):])}
                outs.extend(self.call_value(s, fo.val, args, kwargs, node, text))
        return outs

    # ------------------------------------------------------------ dispatch on the callee value
    def first_match_in_range(self, node: ast.Call, st: State):
        """next((i for i in range(a, b) if cond(i)), default): the least i in [a, b) with cond(i), else the default.
        Returns None if the call is not of that exact shape."""
        g = node.args[0]
        if len(g.generators) != 1 or len(g.generators[0].ifs) != 1 or g.generators[0].is_async:
            return None
        gen = g.generators[0]
        it = gen.iter
        if not (isinstance(gen.target, ast.Name) and isinstance(g.elt, ast.Name) and g.elt.id == gen.target.id
                and isinstance(it, ast.Call) and isinstance(it.func, ast.Name) and it.func.id == "range" and len(it.args) == 2 and not it.keywords):
            return None
        outs: List[Out] = []
        res, raises = self.ev_list([it.args[0], it.args[1], node.args[1]], st)
        outs.extend(raises)
        for s, (lo_v, hi_v, dflt) in res:
            lo, hi = self.as_int(lo_v), self.as_int(hi_v)
            name = gen.target.id

            def cond_at(state, iz):
                saved = state.locals.get(name)
                state.locals[name] = vint(iz)
                was = state.pure
                state.pure = True
                try:
                    c = self.truthy(state, self.ev1(gen.ifs[0], state))
                finally:
                    state.pure = was
                    if saved is None:
                        state.locals.pop(name, None)
                    else:
                        state.locals[name] = saved
                return c

            k = fresh("k", IntS)
            npc = len(s.pc)
            ck = cond_at(s, k)
            side = s.pc[npc:]
            del s.pc[npc:]
            if side:
                s.assume(z3.ForAll([k], z3.Implies(z3.And(lo <= k, k < hi), z3.And(side))))
            none_found = z3.ForAll([k], z3.Implies(z3.And(lo <= k, k < hi), z3.Not(ck)))
            for s2, found in self.branch(s, z3.Not(none_found)):
                if not found:
                    s2.assume(none_found)
                    outs.append(Out("val", s2, dflt))
                    continue
                r = fresh("first", IntS)
                s2.assume(z3.And(lo <= r, r < hi, cond_at(s2, r)))
                k2 = fresh("k", IntS)
                s2.assume(z3.ForAll([k2], z3.Implies(z3.And(lo <= k2, k2 < r), z3.Not(cond_at(s2, k2)))))
                outs.append(Out("val", s2, vint(r)))
        return outs

    def call_value(self, st: State, f: Val, args: List[Val], kwargs: Dict[str, Val], node, text: str) -> List[Out]:
        if f.py is None:
            raise NeedsContract(f"call of a dynamic callable `{text}` (add a calls[...] entry)", node)
        kind = f.py[0]
        if kind == "func":
            # Class.method(obj, ...) names the method of that class: no dynamic dispatch
            return self.call_function(st, f.py[1], args, kwargs, node, text, static_dispatch=True)
        if kind == "bound":
            return self.call_function(st, f.py[2], [f.py[1]] + args, kwargs, node, text)
        if kind == "class":
            return self.construct(st, f.py[1], args, kwargs, node, text)
        if kind == "bmethod":
            return self.builtin_method(st, f.py[1], f.py[2], f.py[3], args, kwargs, node)
        if kind == "builtin":
            return self.builtin_call(st, f.py[1], args, kwargs, node)
        if kind == "modattr":
            name = f.py[1]
            c = self.registry.get(name)
            if c is not None:
                return self.apply_contract(st, c, None, args, kwargs, node, text)
            r = self.modattr_call(st, name, args, kwargs, node)
            if r is not None:
                return r
            raise NeedsContract(f"external function {name}", node)
        if kind == "lambda":
            return self.call_lambda(st, f, args, node)
        if kind == "specfn":
            from .spec import SPEC_LIB

            return [Out("val", st, SPEC_LIB[f.py[1]](self, st, args))]
        raise Unsupported(f"call of {kind}", node)

    def call_lambda(self, st: State, f: Val, args: List[Val], node) -> List[Out]:
        lam: ast.Lambda = f.py[1]
        saved = st.locals
        st.locals = dict(f.py[2])
        for a, v in zip(lam.args.args, args):
            st.locals[a.arg] = v
        outs = self.ev(lam.body, st)
        for o in outs:
            o.st.locals = dict(saved)
        return outs

    # ------------------------------------------------------------ repo functions
    def bind_args(self, st: State, fi: front.FuncInfo, args: List[Val], kwargs: Dict[str, Val], node) -> Dict[str, Val]:
        a = fi.node.args
        names = [x.arg for x in a.posonlyargs + a.args]
        bound: Dict[str, Val] = {}
        if len(args) > len(names):
            if a.vararg is None:
                raise Unsupported(f"too many positional arguments for {fi.key}", node)
            bound[a.vararg.arg] = Val(tup=args[len(names):])
            args = args[: len(names)]
        for n, v in zip(names, args):
            bound[n] = v
        for k, v in kwargs.items():
            bound[k] = v
        defaults = a.defaults
        dnames = names[len(names) - len(defaults):] if defaults else []
        for n, d in zip(dnames, defaults):
            if n not in bound:
                bound[n] = self.eval_default(st, fi, d)
        for ka, kd in zip(a.kwonlyargs, a.kw_defaults):
            if ka.arg not in bound and kd is not None:
                bound[ka.arg] = self.eval_default(st, fi, kd)
        for n in names + [x.arg for x in a.kwonlyargs]:
            if n not in bound:
                raise Unsupported(f"missing argument {n} for {fi.key}", node)
        return bound

    def eval_default(self, st: State, fi: front.FuncInfo, d: ast.expr) -> Val:
        s2 = State()
        s2.func = fi
        s2.pure = True
        s2.heap, s2.heap0, s2.pc = st.heap, st.heap0, st.pc
        return self.ev(d, s2)[0].val

    def call_function(self, st: State, fi: front.FuncInfo, args: List[Val], kwargs: Dict[str, Val], node, recv_text=None,
                      static_dispatch: bool = False) -> List[Out]:
        if fi.cls is not None and not fi.is_static and not fi.is_classmethod and args and args[0].z is not None \
                and not getattr(self, "_in_virtual", False) and not static_dispatch:
            base_c = self.registry.get(fi.key)
            subs = [] if (base_c is not None and base_c.assumed) else self.overriding_subclasses(fi)
            if subs or ("abstractmethod" in fi.decorators and base_c is None):
                return self.virtual_call(st, fi, subs, args, kwargs, node, recv_text)
        key = fi.key
        c = self.registry.get(key)
        inline_req = st.contract is not None and (key in st.contract.inline or (recv_text and recv_text in st.contract.inline))
        if c is not None and not inline_req:
            recv = None
            a2 = args
            if fi.cls is not None and not fi.is_static:
                recv, a2 = args[0], args[1:]
            return self.apply_contract(st, c, recv, a2, kwargs, node, recv_text or key, fi)
        return self.inline_call(st, fi, args, kwargs, node)

    def inline_call(self, st: State, fi: front.FuncInfo, args: List[Val], kwargs: Dict[str, Val], node) -> List[Out]:
        if st.depth >= self.inline_depth:
            raise NeedsContract(f"inline depth exceeded at {fi.key}", node)
        for d in fi.decorators:
            if d not in ("staticmethod", "classmethod", "property", "override", "abstractmethod", "ClassProperty"):
                raise NeedsContract(f"decorated function {fi.key} (@{d})", node)
        if "abstractmethod" in fi.decorators:
            raise NeedsContract(f"abstract method {fi.key} (receiver class not known statically)", node)
        if fi.cls is not None and not fi.is_static and self.has_override(fi) and not getattr(self, "_in_virtual", False):
            raise NeedsContract(f"{fi.key} is overridden in a subclass; static resolution is not sound", node)
        bound = self.bind_args(st, fi, args, kwargs, node)
        self.inlined[fi.key] = fi.source_hash()
        callee = st.fork()
        callee.locals = bound
        callee.func = fi
        callee.depth = st.depth + 1
        saved_contract = st.contract
        callee.contract = self.registry.get("$loops:" + fi.key) or Contract(key=fi.key)
        st.note(f"call {fi.key} @{getattr(node, 'lineno', 0)}")
        outs = []
        for o in self.exec_block(fi.node.body, callee):
            s = o.st
            s.locals = dict(st.locals)
            s.func = st.func
            s.depth = st.depth
            s.contract = saved_contract
            if o.kind in ("normal",):
                outs.append(Out("val", s, vnone()))
            elif o.kind == "return":
                outs.append(Out("val", s, o.val if o.val is not None else vnone()))
            elif o.kind == "raise":
                outs.append(Out("raise", s, o.val))
            else:
                raise Unsupported(f"{o.kind} escaping function {fi.key}", node)
        return outs

    def class_file(self, name: str) -> Optional[str]:
        import os
        import re

        if not hasattr(CallMixin, "_class_files"):
            m: Dict[str, str] = {}
            root = os.path.join(front.REPO_ROOT, "pymarkdown")
            for dp, _, fns in os.walk(root):
                for fn in sorted(fns):
                    if fn.endswith(".py"):
                        try:
                            src = open(os.path.join(dp, fn), "rt", encoding="utf-8").read()
                        except OSError:
                            continue
                        for mm in re.finditer(r"^class\s+(\w+)", src, re.M):
                            m.setdefault(mm.group(1), os.path.relpath(os.path.join(dp, fn), front.REPO_ROOT))
            CallMixin._class_files = m
        return CallMixin._class_files.get(name)

    def overriding_subclasses(self, fi: front.FuncInfo) -> List[front.FuncInfo]:
        """Methods in (transitive) subclasses anywhere in pymarkdown/ that override fi."""
        self.has_override(fi)  # builds the index
        idx = CallMixin._override_index
        out = []
        seen = set()
        work = [fi.cls.name]
        while work:
            c = work.pop()
            for sub, relpath, meths in idx.get(c, []):
                if sub in seen:
                    continue
                seen.add(sub)
                work.append(sub)
                if fi.node.name in meths:
                    try:
                        out.append(front.find_function(f"{relpath}::{sub}.{fi.node.name}"))
                    except KeyError:
                        pass
        return out

    def virtual_call(self, st: State, fi, subs, args, kwargs, node, recv_text) -> List[Out]:
        """Dynamic dispatch on clsof(receiver): one branch per overriding class that is feasible for the receiver,
        plus the statically resolved method for the remaining classes."""
        recv = args[0]
        r = V.r(recv.z)
        outs: List[Out] = []
        rest = st
        for sub in subs:
            cid = INTERN.class_id(sub.cls.name)
            br = self.branch(rest, clsof(r) == cid)
            nxt = None
            for s2, is_sub in br:
                if is_sub:
                    self._in_virtual = True
                    try:
                        a2 = [Val(recv.z, th=TH(sub.cls.name))] + args[1:]
                        outs.extend(self.call_function(s2, sub, a2, kwargs, node, recv_text))
                    finally:
                        self._in_virtual = False
                else:
                    nxt = s2
            if nxt is None:
                return outs
            rest = nxt
        # receiver is none of the known overriding classes
        self._in_virtual = True
        try:
            if "abstractmethod" in fi.decorators and self.registry.get(fi.key) is None:
                raise NeedsContract(f"abstract method {fi.key}: receiver may be an unknown subclass (add a behavioural contract)", node)
            outs.extend(self.call_function(rest, fi, args, kwargs, node, recv_text))
        finally:
            self._in_virtual = False
        return outs

    _override_index: Optional[Dict[str, List[Tuple[str, List[str], List[str]]]]] = None

    def has_override(self, fi: front.FuncInfo) -> bool:
        """Is fi (a method of class C) overridden by some subclass anywhere in pymarkdown/ ?"""
        import os
        import re

        if CallMixin._override_index is None:
            idx: Dict[str, List[Tuple[str, List[str], List[str]]]] = {}
            root = os.path.join(front.REPO_ROOT, "pymarkdown")
            for dp, _, fns in os.walk(root):
                for fn in fns:
                    if not fn.endswith(".py"):
                        continue
                    try:
                        src = open(os.path.join(dp, fn), "rt", encoding="utf-8").read()
                    except OSError:
                        continue
                    for m in re.finditer(r"^class\s+(\w+)\s*\(([^)]*)\)\s*:", src, re.M):
                        cname = m.group(1)
                        bases = [b.strip().split(".")[-1] for b in m.group(2).split(",") if b.strip()]
                        # methods of that class: crude but sufficient (def at 4-space indent until next class)
                        end = src.find("\nclass ", m.end())
                        body = src[m.end(): end if end != -1 else len(src)]
                        meths = re.findall(r"^    def\s+(\w+)\s*\(", body, re.M)
                        rel = os.path.relpath(os.path.join(dp, fn), front.REPO_ROOT)
                        for b in bases:
                            idx.setdefault(b, []).append((cname, rel, meths))
            CallMixin._override_index = idx
        idx = CallMixin._override_index
        target = fi.node.name
        seen = set()
        work = [fi.cls.name]
        while work:
            c = work.pop()
            for sub, _, meths in idx.get(c, []):
                if sub in seen:
                    continue
                seen.add(sub)
                if target in meths:
                    return True
                work.append(sub)
        return False

    def construct(self, st: State, ci: front.ClassInfo, args: List[Val], kwargs: Dict[str, Val], node, text) -> List[Out]:
        if is_known_exception(ci.name) or any(is_known_exception(b) for b in ci.bases):
            return self.construct_exception(st, ci.name, args, kwargs, node)
        ckey = f"{ci.module.relpath}::{ci.name}.__init__"
        c = self.registry.get(ckey) or self.registry.get(f"{ci.module.relpath}::{ci.name}")
        r = st.new_ref()
        st.assume(clsof(r) == INTERN.class_id(ci.name))
        obj = Val(V.R(r), th=TH(ci.name))
        if c is not None:
            outs = []
            for o in self.apply_contract(st, c, obj, args, kwargs, node, text):
                if o.kind == "val":
                    outs.append(Out("val", o.st, obj))
                else:
                    outs.append(o)
            return outs
        init = front.find_method(ci, "__init__")
        if init is None:
            if any(b in ("Enum",) for b in ci.bases):
                raise Unsupported("enum construction", node)
            if "dataclass" in ci.decorators:
                # generated __init__: positional / keyword arguments are stored in declaration order
                names = list(ci.annotations)
                if len(args) > len(names):
                    raise Unsupported(f"too many arguments for dataclass {ci.name}", node)
                given = dict(zip(names, args))
                given.update(kwargs)
                for n in names:
                    if n in given:
                        st.hwrite(n, r, self.to_z(st, given[n]))
                    elif n in ci.class_attrs:
                        st.hwrite(n, r, self.to_z(st, self.class_attr(st, ci, n, node)))
                    else:
                        raise Unsupported(f"missing dataclass field {n} for {ci.name}", node)
            return [Out("val", st, obj)]
        outs = []
        for o in self.inline_call(st, init, [obj] + args, kwargs, node):
            if o.kind == "val":
                outs.append(Out("val", o.st, obj))
            else:
                outs.append(o)
        return outs

    def construct_exception(self, st: State, name: str, args: List[Val], kwargs, node) -> List[Out]:
        if not is_known_exception(name):
            raise Unsupported(f"exception class {name} not in lattice", node)
        fields = {}
        if args:
            fields["arg0"] = args[0]
        if name == "SystemExit":
            fields["code"] = args[0] if args else vnone()
        for k, v in kwargs.items():
            fields[k] = v
        e = ExcVal(exc_id(name), fields, origin=f"{self.cur_file(st)}:{getattr(node, 'lineno', 0)}")
        return [Out("val", st, Val(py=("exc", e), th=TH(name)))]

    # ------------------------------------------------------------ contracts at call sites
    def spec_state(self, st: State, env: Dict[str, Val], func=None) -> State:
        """A view of `st` in which spec expressions over `env` are evaluated (shares heap/pc objects)."""
        s = State.__new__(State)
        s.__dict__.update(st.__dict__)
        s.locals = env
        s.pure = True
        if func is not None:
            s.func = func
        return s

    def eval_spec(self, st: State, text: str, env: Dict[str, Val], func=None, old: Optional[State] = None) -> Val:
        tree = ast.parse(text.strip(), mode="eval").body
        if func is not None and func.cls is not None:
            front._Mangler(func.cls.name).visit(tree)
        s = self.spec_state(st, env, func)
        if old is not None:
            s.old = old
        v = self.ev1(tree, s)
        # pure evaluation may have appended type facts to s.pc; s.pc is st.pc (shared list) so nothing to copy
        st.nalloc = s.nalloc
        st.alloc_base = s.alloc_base
        st.heap = s.heap
        return v

    def spec_bool(self, st: State, text: str, env: Dict[str, Val], func=None, old=None):
        return z3.simplify(self.truthy(st, self.eval_spec(st, text, env, func, old)))

    def contract_env(self, st: State, c: Contract, fi: Optional[front.FuncInfo], recv: Optional[Val], args: List[Val],
                     kwargs: Dict[str, Val], node) -> Dict[str, Val]:
        env: Dict[str, Val] = {}
        if fi is not None:
            allargs = ([recv] if (recv is not None and fi.cls is not None and not fi.is_static) else []) + args
            env = self.bind_args(st, fi, allargs, kwargs, node)
        else:
            names = c.params or []
            for i, v in enumerate(args):
                env[names[i] if i < len(names) else f"a{i + 1}"] = v
            for k, v in kwargs.items():
                env[k] = v
            for i, v in enumerate(args):
                env.setdefault(f"a{i + 1}", v)
            if recv is not None:
                env["self"] = recv
            for n in names:
                env.setdefault(n, vnone())
        return env

    def havoc_ghosts(self, st: State, c: Contract) -> None:
        """Every ghost variable a callee's contract declares may have been changed by it: its value after the call is
        whatever the contract's ensures clauses say, nothing more."""
        for g in c.ghost:
            cur = st.ghost.get(g)
            if cur is None or cur.z is None:
                continue
            k = hint_kind(cur.th)
            if k == "list":
                r = V.r(cur.z)
                st.hwrite("$llen", r, fresh("gl", IntS))
                st.hwrite("$litems", r, fresh("gi", z3.ArraySort(IntS, V)))
                st.assume(st.hread("$llen", r) >= 0)
            elif k in ("dict", "set"):
                r = V.r(cur.z)
                st.hwrite("$dlen", r, fresh("gdl", IntS))
                st.hwrite("$ddom", r, fresh("gdd", z3.ArraySort(V, z3.BoolSort())))
                st.hwrite("$dval", r, fresh("gdv", z3.ArraySort(V, V)))
                st.assume(st.hread("$dlen", r) >= 0)
            else:
                st.ghost[g] = self.typed(st, fresh("gh_" + g), cur.th)

    def havoc_cmodifies(self, st: State, c: Contract, env: Dict[str, Val], func) -> None:
        for cond, fields in c.cmodifies:
            g = self.spec_bool(st, cond, env, func)
            if z3.is_false(g) or not self.feasible(st, g):
                continue
            if "*" in fields:
                from .spec import PROTECTED_FIELDS

                names = [f for f in list(st.heap.keys()) + [k for k in st.heap0 if k not in st.heap] if f not in PROTECTED_FIELDS]
                before = {f: st.harr(f) for f in names}
                self.havoc_modifies(st, ["*"], env, func)   # keeps protected fields and ghost containers
                for f in names:
                    st.heap[f] = z3.If(g, st.heap[f], before[f])
                continue
            before = {f: st.harr(f) for f in fields}
            self.havoc_modifies(st, fields, env, func)
            for f in fields:
                st.heap[f] = z3.If(g, st.heap[f], before[f])

    def havoc_modifies(self, st: State, mods: List[str], env: Dict[str, Val], func) -> None:
        for m in mods:
            if m in st.ghost and "." not in m:
                old = st.ghost[m]
                st.ghost[m] = self.typed(st, fresh("gh_" + m), old.th)
                continue
            if m == "*":
                from .spec import PROTECTED_FIELDS

                ghost_refs = [V.r(g.z) for g in st.ghost.values() if g.z is not None and hint_kind(g.th) in ("list", "dict", "set")]
                for f in list(st.heap.keys()) + [k for k in st.heap0 if k not in st.heap]:
                    if f not in PROTECTED_FIELDS:
                        before = st.harr(f)
                        st.havoc_field(f)
                        if f.startswith("$") and not f.startswith("$static"):
                            # ghost containers are not program state: a "*" clause does not cover them
                            for gr in ghost_refs:
                                st.heap[f] = z3.Store(st.heap[f], gr, z3.Select(before, gr))
                continue
            if "." in m and not m.startswith("$") and not m.startswith("ns."):
                # "obj.field": only that object's field is havoc'd
                objtxt, fld = m.rsplit(".", 1)
                o = self.eval_spec(st, objtxt, env, func)
                fld = front.mangle(fld, func.cls.name if func is not None and func.cls is not None else None)
                if o.z is None:
                    continue
                isref = V.is_R(o.z)
                rr = V.r(o.z)

                def gw(field, sort_prefix, sort):
                    st.hwrite(field, rr, fresh(sort_prefix, sort), guard=isref)

                if fld == "$list":
                    gw("$llen", "hl", IntS)
                    gw("$litems", "hi", z3.ArraySort(IntS, V))
                    st.assume(z3.Implies(isref, st.hread("$llen", rr) >= 0))
                elif fld == "$dict":
                    gw("$dlen", "hdl", IntS)
                    gw("$ddom", "hdd", z3.ArraySort(V, z3.BoolSort()))
                    gw("$dval", "hdv", z3.ArraySort(V, V))
                    st.assume(z3.Implies(isref, st.hread("$dlen", rr) >= 0))
                else:
                    gw(fld, "hv_" + fld, V)
            else:
                before = st.harr(m)
                st.havoc_field(m)
                if m.startswith("$") and not m.startswith("$static"):
                    # a whole-field clause on a container field speaks about program objects; ghost containers are only
                    # changed through ghost effects / the callee's declared ghosts
                    for g in st.ghost.values():
                        if g.z is not None and hint_kind(g.th) in ("list", "dict", "set"):
                            gr = V.r(g.z)
                            st.heap[m] = z3.Store(st.heap[m], gr, z3.Select(before, gr))

    def apply_contract(self, st: State, c: Contract, recv: Optional[Val], args: List[Val], kwargs: Dict[str, Val], node,
                       text: str, fi: Optional[front.FuncInfo] = None) -> List[Out]:
        line = getattr(node, "lineno", 0)
        if fi is None and c.key and "::" in c.key:
            try:
                fi = front.find_function(c.key)
            except KeyError:
                fi = None
        (self.used_assumed if c.assumed else self.used_contracts)[c.key or text] = c
        env = self.contract_env(st, c, fi, recv, args, kwargs, node)
        pre_state = st.fork()
        pre_state.locals = dict(env)  # old(...) in the callee's clauses is evaluated in the callee's view of the call state
        if fi is not None:
            pre_state.func = fi

        def tracked(text: str) -> bool:
            """clauses about ghost variables that the current proof does not declare are not tracked"""
            seqs = {lp_.seq_name for lp_ in c.loops.values() if lp_.seq_name}
            if not c.ghost and not c.lets and not seqs:
                return True
            names = {n.id for n in ast.walk(ast.parse(text.strip(), mode="eval")) if isinstance(n, ast.Name)}
            if any(l in names for l in c.lets) or (names & seqs):
                return False  # clauses phrased with the callee's local abbreviations are not exported
            return all(g in st.ghost for g in c.ghost if g in names)

        # preconditions are obligations of the caller
        for i, r in enumerate(c.requires):
            if not tracked(r):
                continue
            g = self.spec_bool(st, r, env, fi)
            self.oblige(f"pre[{c.key or text}#{i}]@{line}", st, g, line, "pre", r)
            st.assume(g)
        outs: List[Out] = []
        event = {"callee": c.key or text, "text": text, "line": line, "args": list(args), "kwargs": dict(kwargs), "recv": recv}
        # exceptional outcomes
        for ri, rz in enumerate(c.raises):
            s2 = st.fork()
            if rz.when is not None:
                w = self.spec_bool(s2, rz.when, env, fi)
                if not self.feasible(s2, w):
                    continue
                s2.assume(w)
            mods = rz.modifies if rz.modifies is not None else c.modifies
            mods = [m for m in mods if not (m.split(".")[0] in c.ghost and m.split(".")[0] not in st.ghost)]
            self.havoc_cmodifies(s2, c, env, fi)
            self.havoc_modifies(s2, mods, env, fi)
            self.havoc_ghosts(s2, c)
            if not c.pure:
                s2.bump_alloc()
            cls = fresh("exccls", IntS)
            s2.assume(exc_is_sub(cls, rz.exc))
            fields = {}
            if rz.code is not None:
                fields["code"] = self.eval_spec(s2, rz.code, env, fi, old=pre_state)
            ev_ = ExcVal(cls, fields, origin=f"callee {c.key or text} @{line}")
            rv = Val(py=("exc", ev_), th=TH(rz.exc))
            env2 = dict(env)
            env2["raised"] = rv
            for e in rz.ensures:
                s2.assume(self.spec_bool(s2, e, env2, fi, old=pre_state))
            from .sym import exc_ancestors

            for xcls, posts in c.xensures.items():
                if exc_canon_name(xcls) in exc_ancestors(rz.exc):
                    for e in posts:
                        if tracked(e):
                            s2.assume(self.spec_bool(s2, e, env2, fi, old=pre_state))
            self.run_effects(s2, rz.effects, env2, fi, pre_state)
            s2.events.append(dict(event, outcome=("raise", cls, rz.exc)))
            s2.note(f"{text} raises {rz.exc} @{line}")
            outs.append(Out("raise", s2, rv))
        # normal outcome
        s1 = st
        self.havoc_cmodifies(s1, c, env, fi)
        self.havoc_ghosts(s1, c)
        self.havoc_modifies(s1, [m for m in c.modifies if not (m.split(".")[0] in c.ghost and m.split(".")[0] not in st.ghost)], env, fi)
        rth = parse_hint(c.returns) if c.returns else (parse_hint(fi.node.returns) if fi is not None else None)
        if c.fresh_result:
            r = s1.new_ref()
            res = Val(V.R(r), th=rth)
            if rth is not None:
                s1.assume(z3.simplify(self.type_formula(s1, res.z, rth)))  # e.g. a fresh list has a length >= 0
            if rth is not None and hint_kind(rth) == "obj":
                s1.assume(clsof(r) == INTERN.class_id(rth.name))
            if not c.pure:
                s1.bump_alloc()
        elif rth is not None and rth.name == "None":
            if not c.pure:
                s1.bump_alloc()
            res = vnone()
        elif rth is not None and hint_kind(rth) == "tuple" and rth.args and not (len(rth.args) == 2 and rth.args[1].name == "Ellipsis"):
            if not c.pure:
                s1.bump_alloc()
            res = Val(tup=[self.typed(s1, fresh("ret"), a) for a in rth.args])
        else:
            if not c.pure:
                s1.bump_alloc()
            res = self.typed(s1, fresh("ret"), rth)
        env1 = dict(env)
        env1["result"] = res
        for e in c.ensures:
            if tracked(e):
                s1.assume(self.spec_bool(s1, e, env1, fi, old=pre_state))
        self.run_effects(s1, c.effects, env1, fi, pre_state)
        s1.events.append(dict(event, outcome=("ret", res)))
        outs.append(Out("val", s1, res))
        return outs

    def run_effects(self, st: State, effects: List[str], env: Dict[str, Val], fi, old: State) -> None:
        """Ghost statements attached to an assumed contract.  Executed on ghost variables only."""
        if not effects:
            return
        for text in effects:
            tree = ast.parse(text.strip()).body
            # an effect on a ghost variable that this proof does not declare is not tracked
            roots = [n.id for n in ast.walk(tree[0]) if isinstance(n, ast.Name) and n.id.startswith(("trace", "g_"))]
            if any(r not in st.ghost for r in roots):
                continue
            s = self.spec_state(st, dict(env), fi)
            s.pure = True  # ghost statements never fork: expressions are evaluated as specifications
            s.old = old
            s.ghost = st.ghost
            outs = self.exec_block(tree, s)
            if len(outs) != 1 or outs[0].kind != "normal":
                raise Unsupported(f"ghost effect forked: {text}")
            o = outs[0].st
            st.heap, st.nalloc, st.alloc_base, st.ghost, st.pc = o.heap, o.nalloc, o.alloc_base, o.ghost, o.pc
            # ghost variables assigned by name
            for k in list(st.ghost):
                if k in o.locals:
                    st.ghost[k] = o.locals[k]

    # ------------------------------------------------------------ spec-only functions
    def spec_call(self, fn: str, node: ast.Call, st: State) -> Val:
        if fn == "old":
            if st.old is None:
                raise Unsupported("old() without entry state", node)
            o = st.old
            s = self.spec_state(o, dict(o.locals), o.func)
            s.pc = st.pc
            s.spec_env = st.locals  # quantified variables and params remain visible
            s.ghost = o.ghost
            s.old = None
            s.now_state = st
            v = self.ev1(node.args[0], s)
            return v
        if fn == "now":
            # now(e) inside old(...): e is evaluated in the CURRENT state (e.g. old(xs[now(g_index)]))
            cur = getattr(st, "now_state", None) or st
            return self.ev1(node.args[0], cur)
        if fn == "implies":
            a = self.truthy(st, self.ev1(node.args[0], st))
            if z3.is_false(z3.simplify(a)):
                # statically false antecedent: the consequent is not evaluated (it may not even be well-formed on this path,
                # e.g. result[3][0] where result[3] is the literal None)
                return vbool(z3.BoolVal(True))
            b = self.truthy(st, self.ev1(node.args[1], st))
            return vbool(z3.Implies(a, b))
        if fn == "iff":
            a = self.truthy(st, self.ev1(node.args[0], st))
            b = self.truthy(st, self.ev1(node.args[1], st))
            return vbool(a == b)
        if fn in ("forall", "exists", "forall_val"):
            lam = node.args[0]
            if not isinstance(lam, ast.Lambda):
                raise Unsupported("forall needs a lambda", node)
            names = [a.arg for a in lam.args.args]
            anyval = fn.endswith("_val")
            vars_ = [fresh(n, V if anyval else IntS) for n in names]
            saved = dict(st.locals)
            for n, v in zip(names, vars_):
                st.locals[n] = Val(v) if anyval else vint(v)
            st.no_type_facts = True
            try:
                guards = []
                if len(node.args) >= 3:
                    lo = self.as_int(self.ev1(node.args[1], st))
                    hi = self.as_int(self.ev1(node.args[2], st))
                    for v in vars_:
                        guards += [lo <= v, v < hi]
                npc = len(st.pc)
                body = self.truthy(st, self.ev1(lam.body, st))
                # facts added during evaluation of the body mention bound variables: fold them into the body
                side = st.pc[npc:]
                del st.pc[npc:]
            finally:
                st.locals = saved
                st.no_type_facts = False
            # typing facts about values read under the binder hold for every index in range (trusted typing)
            if side:
                st.assume(z3.ForAll(vars_, z3.Implies(z3.And(guards), z3.And(side)) if guards else z3.And(side)))
            if fn in ("forall", "forall_val"):
                inner = z3.Implies(z3.And(guards), body) if guards else body
                return vbool(z3.ForAll(vars_, inner))
            return vbool(z3.Exists(vars_, z3.And(guards + [body])))
        if fn == "is_exc":
            v = self.ev1(node.args[0], st)
            name = node.args[1].value if isinstance(node.args[1], ast.Constant) else node.args[1].id
            e: ExcVal = v.py[1]
            return vbool(exc_is_sub(e.cls_expr(), name))
        if fn == "str_eq":
            a, b = self.ev1(node.args[0], st), self.ev1(node.args[1], st)
            return vbool(self.str_pointwise_eq(V.s(a.z), V.s(b.z)))
        if fn == "contains":
            a, b = self.ev1(node.args[0], st), self.ev1(node.args[1], st)
            return vbool(self.contains(st, a, b, node))
        if fn == "is_empty":
            c_ = self.ev1(node.args[0], st)
            k_ = hint_kind(c_.th)
            if k_ == "list":
                return vbool(st.hread("$llen", V.r(c_.z)) == 0)
            x_ = fresh("x", V)
            return vbool(z3.And(st.hread("$dlen", V.r(c_.z)) == 0, z3.ForAll([x_], z3.Not(z3.Select(st.hread("$ddom", V.r(c_.z)), x_)))))
        if fn == "is_fresh":
            # is_fresh(x): x was allocated during the call (between the entry state and now)
            x = self.ev1(node.args[0], st)
            lo = st.old.alloc_bound() if st.old is not None else st.alloc0
            return vbool(z3.And(V.is_R(x.z), V.r(x.z) >= lo, V.r(x.z) < st.alloc_bound()))
        if fn == "same_except":
            # same_except("field" | "$list" | "$dict", obj...): for every object that existed at entry, other than the
            # listed ones, the field (container content) has its entry value
            fld = node.args[0].value
            objs = [self.ev1(a, st) for a in node.args[1:]]
            cls = st.func.cls.name if (st.func is not None and st.func.cls is not None) else None
            fields = {"$list": ["$llen", "$litems"], "$dict": ["$dlen", "$ddom", "$dval"]}.get(fld, [front.mangle(fld, cls)])
            o = st.old
            rq = fresh("rq", IntS)
            parts = []
            for f in fields:
                cur = st.harr(f)
                old_arr = o.harr(f) if o is not None else st.heap0.get(f, cur)
                guard = [rq >= 0, rq < st.alloc0] + [z3.Or(z3.Not(V.is_R(x.z)), rq != V.r(x.z)) for x in objs if x.z is not None]
                parts.append(z3.ForAll([rq], z3.Implies(z3.And(guard), z3.Select(cur, rq) == z3.Select(old_arr, rq))))
            return vbool(z3.And(parts))
        if fn == "unchanged":
            # unchanged("field") : the whole heap array of that field equals its entry value
            fld = node.args[0].value
            if st.func is not None and st.func.cls is not None:
                fld = front.mangle(fld, st.func.cls.name)
            cur = st.harr(fld)
            o = st.old
            old_arr = o.harr(fld) if o is not None else st.heap0[fld]
            return vbool(cur == old_arr)
        raise Unsupported(f"spec function {fn}", node)
