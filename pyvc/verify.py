"""
verify.py -- verify one function against its contract; discharge obligations with z3 (cvc5 fallback).
"""
from __future__ import annotations

import ast
import os
import subprocess
import tempfile
import time
from typing import Any, Dict, List, Optional

import z3

from . import front
from .builtins import BuiltinMixin
from .calls import CallMixin
from .exec import ExecBase, NeedsContract, Obligation, Out, Unsupported
from .expr import ExprMixin
from .spec import Contract, Raises
from .state import ExcVal, State
from .stmt import StmtMixin
from .sym import (INTERN, NONE, TH, V, Val, clsof, exc_is_sub, exc_name, fresh, hint_kind, parse_hint, vnone)


class Exec(ExecBase, ExprMixin, CallMixin, StmtMixin, BuiltinMixin):
    pass


Z3_TIMEOUT_MS = int(os.environ.get("PYVC_Z3_TIMEOUT_MS", "20000"))
CVC5_TIMEOUT_S = int(os.environ.get("PYVC_CVC5_TIMEOUT_S", "30"))


class FunctionResult:
    def __init__(self, key: str):
        self.key = key
        self.status = "ok"  # ok | out-of-subset | unresolved | error
        self.message = ""
        self.obligations: List[Obligation] = []
        self.paths = 0
        self.time_exec = 0.0
        self.time_solve = 0.0
        self.source_hash = ""
        self.lineno = 0
        self.used_assumed: Dict[str, Contract] = {}
        self.used_contracts: Dict[str, Contract] = {}
        self.inlined: Dict[str, str] = {}
        self.feas_checks = 0
        self.ex: Optional[Exec] = None


def initial_state(ex: Exec, fi: front.FuncInfo, c: Contract) -> State:
    st = State()
    st.func = fi
    st.contract = c
    st.assume(st.alloc0 >= 0)
    a = fi.node.args
    params = a.posonlyargs + a.args + a.kwonlyargs
    for i, p in enumerate(params):
        name = p.arg
        th = parse_hint(c.types[name]) if name in c.types else parse_hint(p.annotation)
        if i == 0 and fi.cls is not None and not fi.is_static:
            if fi.is_classmethod:
                st.locals[name] = Val(py=("class", fi.cls))
                continue
            th = TH(fi.cls.name)
        z = z3.Const("arg_" + name, V)
        st.locals[name] = ex.typed(st, z, th)
    if a.vararg or a.kwarg:
        raise Unsupported("*args/**kwargs in verified function", fi.node)
    for gi, (g, t) in enumerate(c.ghost.items()):
        th = parse_hint(t)
        if hint_kind(th) in ("list", "dict", "set"):
            # ghost containers live at negative references: disjoint from every program object
            gz = V.R(z3.IntVal(-(gi + 1)))
            v = Val(gz, th=th)
            if hint_kind(th) == "list":
                st.assume(st.hread("$llen", V.r(gz)) >= 0)
            else:
                st.assume(st.hread("$dlen", V.r(gz)) >= 0)
            st.ghost[g] = v
        else:
            st.ghost[g] = ex.typed(st, z3.Const("ghost_" + g, V), th)
    return st


def verify_function(c: Contract, registry: Dict[str, Contract]) -> FunctionResult:
    res = FunctionResult(c.key)
    t0 = time.time()
    try:
        fi = front.find_function(c.key)
    except (KeyError, OSError) as e:
        res.status = "unresolved"
        res.message = str(e)
        return res
    res.source_hash = fi.source_hash()
    res.lineno = fi.lineno
    ex = Exec(registry)
    res.ex = ex
    ex.cur_key = c.key
    ex.root_contract = c
    try:
        st = initial_state(ex, fi, c)
        env = dict(st.locals)
        for r in c.requires + c.definitions:
            st.assume(ex.spec_bool(st, r, dict(st.locals), fi))
        for text_, why_ in c.assume_entry:
            st.assume(ex.spec_bool(st, text_, dict(st.locals), fi))
            ex.used_assumed[f"assumed at entry of {c.key}: {text_}"] = Contract(key="", why=why_, assumed=True)
        entry = st.fork()
        st.old = entry
        ex.lets = {}
        ex.define_lets(c, st, entry, fi, "entry")
        # vacuity guard: the precondition must be satisfiable
        ex.oblige("cover.requires", st, z3.BoolVal(False), fi.lineno, "cover", " and ".join(c.requires) or "True")
        outs = ex.exec_block(fi.node.body, st)
        res.paths = len(outs)
        n_ret = 0
        for pi, o in enumerate(outs):
            s = o.st
            # vacuity guard: every path that reaches an exit must be satisfiable (quantifier-free part)
            never_returns = c.ensures == ["False"]
            if (o.kind in ("normal", "return")) != never_returns:
                ex.oblige(f"cover.exit#p{pi}", s, z3.BoolVal(False), fi.lineno, "cover_exit",
                          "this exit is reachable" + (" (function never returns normally: exceptional exits are used)" if never_returns else ""))
            if o.kind in ("normal", "return"):
                n_ret += 1
                rv = o.val if o.val is not None else vnone()
                env2 = dict(entry.locals)
                env2["result"] = rv
                for i, e in enumerate(c.ensures):
                    g = ex.spec_bool(s, e, env2, fi, old=entry)
                    ex.oblige(f"post[{i}]#p{pi}", s, g, fi.lineno, "post", e)
                exempt = cell_exemptions(ex, c, fi, s, entry, env2)
                for cond, cfields in c.cmodifies:
                    g0 = ex.spec_bool(s, f"old({cond})", env2, fi, old=entry)
                    if "*" in cfields:
                        from .spec import PROTECTED_FIELDS as _PF

                        declared = {front.mangle(x, fi.cls.name if fi.cls else None) for x in c.modifies if "." not in x or x.startswith("$")}
                        cfields = [f for f in s.heap if f not in _PF and f not in declared]
                    for m in cfields:
                        m2 = front.mangle(m, fi.cls.name if fi.cls else None)
                        if m2 in s.heap and not (m2 in s.heap0 and s.heap[m2] is s.heap0[m2]):
                            rq = fresh("rq", z3.IntSort())
                            same = z3.ForAll([rq], z3.Implies(z3.And([rq >= 0, rq < s.alloc0] + [rq != x for x in exempt.get(m2, [])]),
                                                              z3.Select(s.harr(m2), rq) == z3.Select(entry.harr(m2), rq)))
                            ex.oblige(f"cframe[{m2}]#p{pi}", s, z3.Or(g0, same), fi.lineno, "frame",
                                      f"field {m2} is written only when {cond}")
                for m in frame_fields(c, fi, s):
                    rq = fresh("rq", z3.IntSort())
                    pre_existing = z3.ForAll([rq], z3.Implies(z3.And([rq >= 0, rq < s.alloc0] + [rq != x for x in exempt.get(m, [])]),
                                                              z3.Select(s.harr(m), rq) == z3.Select(entry.harr(m), rq)))
                    ex.oblige(f"frame[{m}]#p{pi}", s, pre_existing, fi.lineno, "frame",
                              f"field {m} of every object that existed at entry is unchanged")
            elif o.kind == "raise":
                e: ExcVal = o.val.py[1]
                env2 = dict(entry.locals)
                env2["raised"] = o.val
                if not c.allow_any_raise:
                    allowed = []
                    for rz in c.raises:
                        cond = exc_is_sub(e.cls_expr(), rz.exc)
                        if rz.when is not None:
                            # `when` speaks about the state in which the function was called
                            cond = z3.And(cond, ex.spec_bool(s, f"old({rz.when})", env2, fi, old=entry))
                        allowed.append(cond)
                    g = z3.Or(allowed) if allowed else z3.BoolVal(False)
                    kind = "safe" if e.implicit else "raises"
                    ex.oblige(f"{kind}.allowed#p{pi}[{e.origin}]", s, g, fi.lineno, kind,
                              f"escaping exception from {e.origin} must be one of {[r.exc for r in c.raises]}")
                for cls, posts in c.xensures.items():
                    for i, ptxt in enumerate(posts):
                        g = z3.Implies(exc_is_sub(e.cls_expr(), cls), ex.spec_bool(s, ptxt, env2, fi, old=entry))
                        ex.oblige(f"xpost[{cls}.{i}]#p{pi}", s, g, fi.lineno, "xpost", ptxt)
                for rz in c.raises:
                    for i, ptxt in enumerate(rz.ensures):
                        g = z3.Implies(exc_is_sub(e.cls_expr(), rz.exc), ex.spec_bool(s, ptxt, env2, fi, old=entry))
                        ex.oblige(f"xpost[{rz.exc}.r{i}]#p{pi}", s, g, fi.lineno, "xpost", ptxt)
                    if rz.code is not None:
                        code = e.fields.get("code")
                        want = ex.eval_spec(s, rz.code, env2, fi, old=entry)
                        g = z3.Implies(exc_is_sub(e.cls_expr(), rz.exc),
                                       ex.py_eq(s, code, want) if code is not None else z3.BoolVal(False))
                        ex.oblige(f"xpost[{rz.exc}.code]#p{pi}", s, g, fi.lineno, "xpost", rz.code)
            else:
                raise Unsupported(f"{o.kind} escapes the function body")
    except Unsupported as e:
        res.status = "out-of-subset"
        res.message = str(e)
    except RecursionError as e:
        res.status = "out-of-subset"
        res.message = "recursion limit"
    res.obligations = ex.obligations
    res.used_assumed = ex.used_assumed
    res.used_contracts = ex.used_contracts
    res.inlined = ex.inlined
    res.feas_checks = ex.feas_checks
    res.time_exec = time.time() - t0
    if res.status == "ok":
        t1 = time.time()
        exits = [ob for ob in res.obligations if ob.kind == "cover_exit"]
        # Per-function solver budget: a change that makes many obligations hard must end in UNDECIDED within bounded time, not in
        # hours.  Once the budget is used up, obligations that are not decided instantly are left `unknown` (never a violation).
        budget = float(os.environ.get("PYVC_FUNC_BUDGET_S", "900"))
        slow = 0
        for ob in res.obligations:
            if ob.kind != "cover_exit":
                if time.time() - t1 > budget or slow >= 12:
                    ob.result, ob.backend, ob.time = "unknown", "skipped (function budget exhausted)", 0.0
                    continue
                t_ob = time.time()
                solve(ob)
                if ob.result == "unknown" and time.time() - t_ob > 30:
                    slow += 1
        # vacuity guard at function level: SOME normal exit must have a path condition that cannot be refuted
        # (an individual infeasible path is harmless; all of them being infeasible means the contract is vacuous)
        found = False
        for ob in exits:
            if found:
                ob.result, ob.backend = "sat", "skipped (another exit already shown reachable)"
                continue
            ob.kind = "cover"
            solve(ob)
            ob.kind = "cover_exit"
            if ob.result in ("sat", "unknown"):
                # unknown: the solver could not refute the path condition within its budget - not vacuous as far as we can tell
                if ob.result == "unknown":
                    ob.result, ob.backend = "sat", ob.backend + " (not refuted within budget)"
                found = True
        if exits and not found:
            exits[0].kind = "cover"   # reported as vacuous
            exits[0].result = "unsat"
        res.time_solve = time.time() - t1
    return res


def cell_exemptions(ex, c: Contract, fi: front.FuncInfo, s: State, entry: State, env) -> Dict[str, List[Any]]:
    """refs named by cell-level modifies entries ("obj.field", "obj.$list", "obj.$dict"), evaluated in the entry state"""
    out: Dict[str, List[Any]] = {}
    cls = fi.cls.name if fi.cls is not None else None
    for m in c.modifies:
        if "." in m and not m.startswith("$") and not m.startswith("ns."):
            objtxt, fld = m.rsplit(".", 1)
            if objtxt.split(".")[0] in c.ghost:
                continue
            o = ex.eval_spec(s, f"old({objtxt})", env, fi, old=entry)
            if o.z is None:
                continue
            r = V.r(o.z)
            for f in {"$list": ["$llen", "$litems"], "$dict": ["$dlen", "$ddom", "$dval"]}.get(fld, [front.mangle(fld, cls)]):
                out.setdefault(f, []).append(r)
    return out


def frame_fields(c: Contract, fi: front.FuncInfo, st: State) -> List[str]:
    """Heap fields that were touched on this path but are not in the modifies clause."""
    if "*" in c.modifies:
        from .spec import PROTECTED_FIELDS

        return [f for f in PROTECTED_FIELDS if f in st.heap and not (f in st.heap0 and st.heap[f] is st.heap0[f])
                and f not in [front.mangle(m, fi.cls.name if fi.cls else None) for m in c.modifies]]
    cls = fi.cls.name if fi.cls is not None else None
    allowed = set()
    for m in c.modifies:
        if "." in m and not m.startswith("$") and not m.startswith("ns."):
            continue  # cell-level entry: handled by cell_exemptions
        allowed.add(front.mangle(m, cls))
    for _, cf in c.cmodifies:
        if "*" in cf:
            return []
        for m in cf:
            allowed.add(front.mangle(m, cls))
    out = []
    if not c.modifies and not c.pure and not getattr(c, "check_frame", False):
        return []
    for f, arr in st.heap.items():
        if f in allowed:
            continue
        if f in st.heap0 and arr is st.heap0[f]:
            continue
        out.append(f)
    return out


# ---------------------------------------------------------------- solving
def _mk_solver(ob: Obligation, timeout_ms: int, mbqi: bool):
    from .exec import has_quantifier

    s = z3.Solver()
    s.set("timeout", timeout_ms)
    s.set("random_seed", int(os.environ.get("VERIF_SEED", "0") or 0) % (2 ** 30))
    if not mbqi:
        s.set("smt.mbqi", False)
    for a in INTERN.string_axioms():
        s.add(a)
    for p in ob.pc:
        # reachability covers are decided on the quantifier-free part of the path condition (a sat answer in the
        # presence of quantifiers is beyond the solver); proof obligations always use the full path condition
        if ob.kind == "cover" and has_quantifier(p):
            continue
        s.add(p)
    s.add(z3.Not(ob.goal))
    return s


def solve(ob: Obligation) -> None:
    """Strategy: z3 with E-matching only (fast for unsat), then z3 default (MBQI, can answer sat), then cvc5."""
    t0 = time.time()
    r = z3.unknown
    s = None
    for mbqi, share in ((False, 0.3), (True, 1.0)):
        s = _mk_solver(ob, max(1000, int(Z3_TIMEOUT_MS * share)), mbqi)
        r = s.check()
        ob.backend = "z3-api" if mbqi else "z3-api(ematching)"
        if r == z3.unsat or (r == z3.sat and (mbqi or ob.kind == "cover")):
            break
        r = z3.unknown if r == z3.sat else r  # a sat answer without MBQI is not trusted for quantified problems
    if r == z3.unknown:
        r2 = solve_cvc5(s)
        if r2 is not None:
            ob.backend = "cvc5"
            r = r2
    if ob.kind == "cover" and r == z3.sat:
        # second half of the vacuity guard: the FULL path condition (quantified facts included) must not be refutable
        from .exec import has_quantifier as _hq

        if any(_hq(p) for p in ob.pc):
            s4 = z3.Solver()
            s4.set("timeout", 4000)
            s4.set("smt.mbqi", False)
            for a in INTERN.string_axioms():
                s4.add(a)
            for p in ob.pc:
                s4.add(p)
            if s4.check() == z3.unsat:
                r = z3.unsat
                ob.backend = "z3-api(ematching, full path condition)"
    if r == z3.unknown and ob.kind != "cover":
        # last resort: drop the quantified assumptions.  unsat => proved from fewer assumptions (sound);
        # sat => a candidate counter-model (the dropped facts might exclude it): reported as such
        from .exec import has_quantifier

        s3 = z3.Solver()
        s3.set("timeout", Z3_TIMEOUT_MS)
        for a in INTERN.string_axioms():
            s3.add(a)
        for p in ob.pc:
            if not has_quantifier(p):
                s3.add(p)
        s3.add(z3.Not(ob.goal))
        r3 = s3.check()
        if r3 == z3.unsat:
            r = z3.unsat
            ob.backend = "z3-api(qf-relaxed)"
        elif r3 == z3.sat:
            r = z3.sat
            s = s3
            ob.backend = "z3-api(qf-relaxed candidate)"
            ob.relaxed = True
    ob.time = time.time() - t0
    if r == z3.unsat or r == "unsat":
        ob.result = "unsat"
    elif r == z3.sat:
        ob.result = "sat"
        ob.model = s.model()
    elif r == "sat":
        ob.result = "sat"
        ob.model = None
    else:
        ob.result = "unknown"


def solve_cvc5(s: z3.Solver) -> Optional[str]:
    try:
        smt = "(set-logic ALL)\n" + s.to_smt2()
        with tempfile.NamedTemporaryFile("wt", suffix=".smt2", delete=False) as f:
            f.write(smt)
            path = f.name
        try:
            out = subprocess.run(["/usr/bin/cvc5", f"--tlimit={CVC5_TIMEOUT_S * 1000}", path], capture_output=True, text=True,
                                 timeout=CVC5_TIMEOUT_S + 5)
            first = out.stdout.strip().splitlines()[0] if out.stdout.strip() else ""
            if first in ("sat", "unsat"):
                return first
        finally:
            os.remove(path)
    except Exception:
        return None
    return None
