"""
spec.py -- the sidecar contract language.

A contract is attached to a function of /repo by key "<relpath>::<Class>.<func>" (source spelling,
private names with their two leading underscores), or -- for things outside the verified text
(builtins, third-party, OS) -- to a dotted name such as "shutil.copyfile".  Clause texts are Python
expressions evaluated by the same symbolic evaluator as the code, in *pure* mode, over:

    the parameters by name, `self`, `result`, `old(e)`, ghost variables by name,
    implies(a, b), iff(a, b), forall(lambda i: body, lo, hi)  (lo <= i < hi), exists(...),
    raised (in `xensures`: the exception object), exc_code (SystemExit code).

Kinds:
  Contract(...)  : proved from the function body by pyvc AND used at call sites.
  Assumed(...)   : NOT proved (outside the verified text or out of reach).  Used at call sites only.
                   Every Assumed contract that is actually used is listed in the evidence file.
"""
from __future__ import annotations

from dataclasses import dataclass, field
from typing import Any, Dict, List, Optional, Tuple, Union


@dataclass
class Raises:
    exc: str  # class name in the exception lattice, e.g. "SystemExit", "Exception" (= any Exception)
    when: Optional[str] = None  # pure expr over params/old state: the raise is only possible when this holds
    ensures: List[str] = field(default_factory=list)  # facts about the state / `raised` when it raises
    effects: List[str] = field(default_factory=list)  # ghost statements executed on this outcome
    modifies: Optional[List[str]] = None  # defaults to the contract's modifies
    code: Optional[str] = None  # for SystemExit: expression for the exit code


@dataclass
class Loop:
    invariant: List[str] = field(default_factory=list)
    variant: Optional[str] = None
    index: Optional[str] = None  # name under which a for-loop's hidden position is visible to the invariant
    modifies_fields: Optional[List[str]] = None  # heap fields the body may write (default: computed)
    unroll: bool = False  # for loops over a literal list/tuple
    seq_name: Optional[str] = None  # name under which the iterated key sequence of a dict / set is visible to the invariant
    frozen_iter: str = ""  # non-empty: ASSUMPTION (with this justification) that the iterated list is not mutated by the body


@dataclass
class Contract:
    key: str
    requires: List[str] = field(default_factory=list)
    assume_entry: List[Tuple[str, str]] = field(default_factory=list)  # (clause, justification): ASSUMED when proving this function, not
    # demanded from callers; every one is listed in the evidence file
    definitions: List[str] = field(default_factory=list)  # definitional axioms of opaque spec predicates (conservative extensions):
    # assumed while proving THIS function only, so that callers see the predicate as an opaque name
    ensures: List[str] = field(default_factory=list)
    lets: Dict[str, Tuple[str, str, str]] = field(default_factory=dict)  # name -> (int parameter, result type, expression over the ENTRY state):
    # a local abbreviation, introduced as a fresh function symbol with its defining axiom (keeps quantified clauses small)
    raises: List[Raises] = field(default_factory=list)  # exceptional outcomes (for callers) / allowed escapes (for proof)
    xensures: Dict[str, List[str]] = field(default_factory=dict)  # proved on every path raising that class
    modifies: List[str] = field(default_factory=list)  # heap field names (or "obj.field" paths, or "*")
    cmodifies: List[Tuple[str, List[str]]] = field(default_factory=list)  # (condition over the entry state, fields): written only if cond
    effects: List[str] = field(default_factory=list)  # ghost statements on normal return (Assumed only)
    returns: Optional[str] = None  # type hint text for the result
    params: Optional[List[str]] = None  # parameter names for external callees
    types: Dict[str, str] = field(default_factory=dict)  # extra type hints: "self.__plugins": "PluginManager", "args.x": "bool"
    ghost: Dict[str, str] = field(default_factory=dict)  # ghost variables and their types
    loops: Dict[int, Loop] = field(default_factory=dict)
    calls: Dict[str, Union["Contract", str]] = field(default_factory=dict)  # per-call-site overrides by source text
    inline: List[str] = field(default_factory=list)  # callees (source text or key) to inline rather than use contract
    no_inline: bool = False
    assumed: bool = False
    why: str = ""  # justification for an assumed contract
    safe: bool = False  # prove "raises none-internal": implicit exceptions must not escape unless listed
    pure: bool = False  # no heap effect, no ghost effect
    fresh_result: bool = False  # result is a freshly allocated object
    properties: List[str] = field(default_factory=list)  # property ids this contract serves
    replay: Optional[Dict[str, Any]] = None  # hints for the native replay harness
    allow_any_raise: bool = False  # do not emit `raises.allowed` obligations


def Assumed(key: str = "", **kw) -> Contract:
    kw.setdefault("assumed", True)
    return Contract(key=key, **kw)


# Heap fields that a "*" modifies clause does NOT cover.  For a proved contract with modifies=["*"] this is an
# obligation (frame[<field>]); for an Assumed contract it is part of the assumption.  Each entry is backed by a
# structural obligation (contracts/structural.py) that the field is only stored to in the named functions.
PROTECTED_FIELDS: Dict[str, str] = {}

REGISTRY: Dict[str, Contract] = {}
SPEC_LIB: Dict[str, Any] = {}  # spec functions: name -> callable(ex, st, [Val...]) -> Val


def spec_fn(name: str):
    def deco(f):
        SPEC_LIB[name] = f
        return f

    return deco

GROUPS: Dict[str, List[Any]] = {}  # property id -> list of obligations generators (callables) / contract keys


def register(c: Contract) -> Contract:
    if c.key in REGISTRY:
        raise ValueError(f"duplicate contract for {c.key}")
    REGISTRY[c.key] = c
    return c


def lookup(key: str) -> Optional[Contract]:
    return REGISTRY.get(key)


@spec_fn("has_type")
def _has_type(ex, st, args):
    """has_type(expr, 'List[StackToken]'): the value has the shape its annotation in /repo promises (used in `requires`
    for values reached through fields, whose annotations the engine does not assume by itself in specifications)"""
    import z3

    from .sym import INTERN, V, parse_hint, vbool

    v, t = args
    sid = z3.simplify(V.s(t.z))
    name = next((k for k, i in INTERN.strings.items() if z3.is_int_value(sid) and i == sid.as_long()), None)
    if name is None:
        raise ValueError("has_type needs a literal type name")
    return vbool(ex.type_formula(st, v.z, parse_hint(name)))
