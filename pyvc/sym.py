"""
sym.py -- symbolic values, the universal value sort, exception lattice, type hints.

Encoding of Python values (DESIGN.md 3.3, as built):

  V = none | B(bool) | I(int) | S(string id) | R(object ref) | T(tuple id) | E(enum member id) | X(opaque id)

  * ints are mathematical integers (Python ints are unbounded: no machine-arithmetic assumption);
  * strings are ids into two uninterpreted functions slen(id), sat(id, k): every string literal gets a
    fixed id with its length and code points axiomatised; `==` on strings is id equality (literals with
    different text get different ids, a symbolic string may or may not coincide with a literal), which
    over-approximates Python (both branches of a comparison stay reachable), never under-approximates;
  * objects are references into a Burstall-Bornat heap: one SMT array per field name;
    lists / dicts / sets are objects with the special fields $llen/$litems, $ddom/$dval/$dlen;
  * tuples are Python-level tuples of symbolic values while they are being built / unpacked and get
    an id with tlen/tat when they have to live inside a container.
"""
from __future__ import annotations

import ast
from typing import Any, Dict, List, Optional

import z3

# ---------------------------------------------------------------- the universal sort
_V = z3.Datatype("V")
_V.declare("none")
_V.declare("B", ("b", z3.BoolSort()))
_V.declare("I", ("i", z3.IntSort()))
_V.declare("S", ("s", z3.IntSort()))
_V.declare("R", ("r", z3.IntSort()))
_V.declare("T", ("t", z3.IntSort()))
_V.declare("E", ("e", z3.IntSort()))
_V.declare("X", ("x", z3.IntSort()))
V = _V.create()

IntS = z3.IntSort()
BoolS = z3.BoolSort()
ArrIV = z3.ArraySort(IntS, V)

slen = z3.Function("slen", IntS, IntS)
sat = z3.Function("sat", IntS, IntS, IntS)
clsof = z3.Function("clsof", IntS, IntS)
tlen = z3.Function("tlen", IntS, IntS)
tat = z3.Function("tat", IntS, IntS, V)

str_char = z3.Function("str_char", IntS, IntS)  # the canonical id of the one-character string with that code point
NONE = V.none


def str_canonical(sid):
    """strings of length 0 and 1 have canonical ids, so that id equality is exact for them (see Interner.string_id)"""
    c0 = sat(sid, 0)
    return z3.And(z3.Implies(slen(sid) == 1, z3.And(sid == str_char(c0), slen(str_char(c0)) == 1, sat(str_char(c0), 0) == c0)),
                  z3.Implies(slen(sid) == 0, sid == EMPTY_STRING_ID))


EMPTY_STRING_ID = 999_999


def mkI(e) -> z3.ExprRef:
    return V.I(e if isinstance(e, z3.ExprRef) else z3.IntVal(e))


def mkB(e) -> z3.ExprRef:
    return V.B(e if isinstance(e, z3.ExprRef) else z3.BoolVal(e))


_counter = [0]


def fresh(prefix: str, sort=None):
    _counter[0] += 1
    name = f"{prefix}!{_counter[0]}"
    if sort is None:
        sort = V
    return z3.Const(name, sort)


# ---------------------------------------------------------------- interning of literals / classes / enums
class Interner:
    def __init__(self):
        self.strings: Dict[str, int] = {}
        self.classes: Dict[str, int] = {}
        self.enums: Dict[str, int] = {}
        self.opaques: Dict[str, int] = {}

    def string_id(self, s: str) -> int:
        if s == "":
            self.strings[s] = EMPTY_STRING_ID
        if s not in self.strings:
            self.strings[s] = 1_000_000 + len(self.strings)
        return self.strings[s]

    def class_id(self, name: str) -> int:
        if name not in self.classes:
            self.classes[name] = 100 + len(self.classes)
        return self.classes[name]

    def enum_id(self, qual: str) -> int:
        if qual not in self.enums:
            self.enums[qual] = 500_000 + len(self.enums)
        return self.enums[qual]

    def opaque_id(self, qual: str) -> int:
        if qual not in self.opaques:
            self.opaques[qual] = 700_000 + len(self.opaques)
        return self.opaques[qual]

    def string_axioms(self) -> List[z3.BoolRef]:
        out = [slen(EMPTY_STRING_ID) == 0]
        for s, k in self.strings.items():
            if len(s) == 1:
                out.append(slen(str_char(ord(s))) == 1)
                out.append(sat(str_char(ord(s)), 0) == ord(s))
                continue
            out.append(slen(k) == len(s))
            for j, ch in enumerate(s[:64]):
                out.append(sat(k, j) == ord(ch))
        return out

    def string_of_id(self, k: int) -> Optional[str]:
        if k == EMPTY_STRING_ID:
            return ""
        for s, kk in self.strings.items():
            if kk == k:
                return s
        return None

    def enum_of_id(self, k: int) -> Optional[str]:
        for s, kk in self.enums.items():
            if kk == k:
                return s
        return None

    def class_of_id(self, k: int) -> Optional[str]:
        for s, kk in self.classes.items():
            if kk == k:
                return s
        return None


INTERN = Interner()
CLS_LIST = INTERN.class_id("list")
CLS_DICT = INTERN.class_id("dict")
CLS_SET = INTERN.class_id("set")


# ---------------------------------------------------------------- exception lattice
EXC_PARENT: Dict[str, Optional[str]] = {
    "BaseException": None,
    "SystemExit": "BaseException",
    "KeyboardInterrupt": "BaseException",
    "Exception": "BaseException",
    "ValueError": "Exception",
    "UnicodeError": "ValueError",
    "UnicodeDecodeError": "UnicodeError",
    "OSError": "Exception",
    "FileNotFoundError": "OSError",
    "AssertionError": "Exception",
    "LookupError": "Exception",
    "IndexError": "LookupError",
    "KeyError": "LookupError",
    "TypeError": "Exception",
    "AttributeError": "Exception",
    "RuntimeError": "Exception",
    "StopIteration": "Exception",
    "ArithmeticError": "Exception",
    "ZeroDivisionError": "ArithmeticError",
    # repository classes (checked against the source by check_exception_lattice())
    "BadPluginError": "Exception",
    "BadPluginFixError": "Exception",
    "BadTokenizationError": "Exception",
    "JSONDecodeError": "ValueError",
    "TOMLDecodeError": "ValueError",
    "YAMLError": "Exception",
    "MarkedYAMLError": "YAMLError",
    "PyMarkdownApiException": "Exception",
    "PyMarkdownApiArgumentException": "PyMarkdownApiException",
    "PyMarkdownApiNoFilesFoundException": "PyMarkdownApiException",
    "PyMarkdownApiNotSupportedException": "PyMarkdownApiException",
}
EXC_ALIASES = {"IOError": "OSError", "EnvironmentError": "OSError"}
# every class also has an anonymous strict subclass "<X>+" standing for user-defined subclasses
_EXC_ID: Dict[str, int] = {}
for _n in list(EXC_PARENT):
    _EXC_ID[_n] = 10_000 + 2 * len(_EXC_ID)
EXC_OTHER_SUFFIX = "+"


def exc_canon(name: str) -> str:
    return EXC_ALIASES.get(name, name)


def exc_id(name: str) -> int:
    name = exc_canon(name)
    if name.endswith(EXC_OTHER_SUFFIX):
        return _EXC_ID[name[:-1]] + 1
    return _EXC_ID[name]


def exc_name(i: int) -> str:
    for n, k in _EXC_ID.items():
        if k == i:
            return n
        if k + 1 == i:
            return n + EXC_OTHER_SUFFIX
    return f"<exc {i}>"


def exc_ancestors(name: str) -> List[str]:
    name = exc_canon(name)
    if name.endswith(EXC_OTHER_SUFFIX):
        name = name[:-1]
    out = []
    cur: Optional[str] = name
    while cur is not None:
        out.append(cur)
        cur = EXC_PARENT[cur]
    return out


def exc_subtree_ids(name: str) -> List[int]:
    """ids of all (known and anonymous) classes that are `name` or a subclass of it."""
    name = exc_canon(name)
    ids = []
    for n in EXC_PARENT:
        if name in exc_ancestors(n):
            ids.append(_EXC_ID[n])
            ids.append(_EXC_ID[n] + 1)
    return ids


def is_known_exception(name: str) -> bool:
    return exc_canon(name) in EXC_PARENT


def exc_is_sub(cls_expr, name: str) -> z3.BoolRef:
    ids = exc_subtree_ids(name)
    if isinstance(cls_expr, int):
        return z3.BoolVal(cls_expr in ids)
    return z3.Or([cls_expr == k for k in ids])


# ---------------------------------------------------------------- symbolic value wrapper
class Val:
    """A symbolic Python value.  `z` is a term of sort V (None for purely static things)."""

    __slots__ = ("z", "tup", "py", "th", "lit")

    def __init__(self, z=None, tup=None, py=None, th=None):
        self.lit = None  # for a list built by a literal: the element Vals (keeps classes / functions usable when iterated)
        self.z = z
        self.tup: Optional[List["Val"]] = tup
        self.py: Any = py  # static python-level meaning: ('class', ClassInfo) / ('func', FuncInfo) / ...
        self.th = th  # parsed type hint (TH) or None

    def __repr__(self):
        if self.tup is not None:
            return f"Val(tup={self.tup})"
        if self.py is not None and self.z is None:
            return f"Val(py={self.py[0]})"
        return f"Val({self.z}, th={self.th})"


def vint(e, th=None) -> Val:
    return Val(mkI(e), th=th or TH("int"))


def vbool(e) -> Val:
    return Val(mkB(e), th=TH("bool"))


def vnone() -> Val:
    return Val(NONE, th=TH("None"))


def vstr_lit(s: str) -> Val:
    if len(s) == 1:
        INTERN.string_id(s)
        return Val(V.S(str_char(z3.IntVal(ord(s)))), th=TH("str"))
    return Val(V.S(z3.IntVal(INTERN.string_id(s))), th=TH("str"))


# ---------------------------------------------------------------- type hints
class TH:
    """Parsed type hint: name + args.  e.g. TH('Optional',[TH('str')]), TH('List',[TH('str')]), TH('PluginManager')."""

    __slots__ = ("name", "args")

    def __init__(self, name: str, args: Optional[List["TH"]] = None):
        self.name = name
        self.args = args or []

    def __repr__(self):
        return self.name + (f"[{', '.join(map(repr, self.args))}]" if self.args else "")

    @property
    def is_optional(self):
        return self.name == "Optional"

    def strip_optional(self) -> "TH":
        return self.args[0] if self.name == "Optional" and self.args else self


_LISTY = {"List": "list", "list": "list", "Sequence": "list", "Iterable": "list"}
_DICTY = {"Dict": "dict", "dict": "dict", "Mapping": "dict"}
_SETTY = {"Set": "set", "set": "set", "FrozenSet": "set"}


def parse_hint(node) -> Optional[TH]:
    if node is None:
        return None
    if isinstance(node, str):
        try:
            node = ast.parse(node, mode="eval").body
        except SyntaxError:
            return None
    if isinstance(node, ast.Constant):
        if node.value is None:
            return TH("None")
        if isinstance(node.value, str):
            return parse_hint(node.value)
        return None
    if isinstance(node, ast.Name):
        return TH(node.id)
    if isinstance(node, ast.Attribute):
        return TH(node.attr)
    if isinstance(node, ast.Subscript):
        base = parse_hint(node.value)
        if base is None:
            return None
        sl = node.slice
        elts = sl.elts if isinstance(sl, ast.Tuple) else [sl]
        args = [parse_hint(e) or TH("Any") for e in elts]
        if base.name == "Union":
            non_none = [a for a in args if a.name != "None"]
            if len(non_none) == 1 and len(args) == 2:
                return TH("Optional", non_none)
            return TH("Any")
        return TH(base.name, args)
    if isinstance(node, ast.BinOp) and isinstance(node.op, ast.BitOr):
        l, r = parse_hint(node.left), parse_hint(node.right)
        if l and r:
            if r.name == "None":
                return TH("Optional", [l])
            if l.name == "None":
                return TH("Optional", [r])
        return TH("Any")
    return None


def hint_kind(th: Optional[TH]) -> Optional[str]:
    """'list' / 'dict' / 'set' / 'tuple' / 'int' / 'bool' / 'str' / 'None' / 'obj' / None(unknown)."""
    if th is None:
        return None
    n = th.name
    if n in _LISTY:
        return "list"
    if n in _DICTY:
        return "dict"
    if n in _SETTY:
        return "set"
    if n in ("Tuple", "tuple"):
        return "tuple"
    if n in ("int", "bool", "str", "None"):
        return n
    if n in ("Any", "Optional", "Callable", "object", "Union"):
        return None
    return "obj"
