"""
exec.py -- symbolic executor / verification-condition generator over the real AST.

Part 1: infrastructure, truthiness, typing, equality, obligations.
The executor class is assembled from mix-ins: ExprMixin (expr.py), CallMixin (calls.py),
StmtMixin (stmt.py), BuiltinMixin (builtins.py).
"""
from __future__ import annotations

import ast
from typing import Any, Dict, List, Optional, Tuple

import z3

from . import front
from .spec import Contract, Loop
from .state import ExcVal, State
from .sym import (CLS_DICT, CLS_LIST, CLS_SET, INTERN, NONE, TH, V, Val, clsof, exc_id, exc_is_sub, fresh, hint_kind,
                  mkB, mkI, parse_hint, sat, slen, tat, tlen, vbool, vint, vnone, vstr_lit)


class Unsupported(Exception):
    def __init__(self, msg: str, node: Optional[ast.AST] = None):
        line = getattr(node, "lineno", "?")
        super().__init__(f"out-of-subset: {msg} @line {line}")
        self.node = node


class NeedsContract(Unsupported):
    pass


class Out:
    __slots__ = ("kind", "st", "val")

    def __init__(self, kind: str, st: State, val: Optional[Val] = None):
        self.kind = kind  # 'val' | 'normal' | 'return' | 'raise' | 'break' | 'continue'
        self.st = st
        self.val = val

    def __repr__(self):
        return f"Out({self.kind}, {self.val})"


class Obligation:
    def __init__(self, name: str, pc: List[z3.BoolRef], goal: z3.BoolRef, st: State, line: int = 0, kind: str = "post",
                 info: str = ""):
        self.name = name
        self.pc = pc
        self.goal = goal
        self.st = st
        self.line = line
        self.kind = kind
        self.info = info
        self.result: Optional[str] = None
        self.model = None
        self.backend = ""
        self.time = 0.0
        self.must_be_sat = kind in ("cover", "cover_exit")


_HQ = {}


def has_quantifier(e) -> bool:
    """Quantified facts are left out of feasibility checks (pruning only; keeps them fast and decidable)."""
    k = e.get_id()
    r = _HQ.get(k)
    if r is not None:
        return r
    seen = set()
    work = [e]
    r = False
    while work:
        x = work.pop()
        i = x.get_id()
        if i in seen:
            continue
        seen.add(i)
        if z3.is_quantifier(x):
            r = True
            break
        work.extend(x.children())
    _HQ[k] = r
    return r


class ExecBase:
    FEAS_TIMEOUT_MS = 400

    def __init__(self, registry: Dict[str, Contract], max_paths: int = 6000, inline_depth: int = 6):
        self.registry = registry
        self.obligations: List[Obligation] = []
        self.used_assumed: Dict[str, Contract] = {}
        self.used_contracts: Dict[str, Contract] = {}
        self.inlined: Dict[str, str] = {}  # key -> source hash
        self.max_paths = max_paths
        self.inline_depth = inline_depth
        self.feas_checks = 0
        self.feas_time = 0.0
        self.probing = 0
        self.cur_key = ""
        self.paths = 0

    # ------------------------------------------------------------ obligations
    def oblige(self, name: str, st: State, goal, line: int = 0, kind: str = "post", info: str = "") -> None:
        if self.probing:
            return
        self.obligations.append(Obligation(f"{self.cur_key}::{name}", list(st.pc), goal, st, line, kind, info))

    def define_lets(self, c, st: State, at: State, fi, where: str) -> None:
        """introduce the contract's local abbreviations whose definition point is `where` ('entry' or 'loop<k>'):
        a fresh function symbol plus its defining axiom over the state `at`"""
        from .sym import vint as _vint

        for lname, spec_ in c.lets.items():
            lparam, ltype, ltext = spec_[0], spec_[1], spec_[2]
            lwhere = spec_[3] if len(spec_) > 3 else "entry"
            if lwhere != where:
                continue
            lth = parse_hint(ltype)
            fn = z3.Function(f"let_{lname}", z3.IntSort(), V)
            jv = fresh(lparam, z3.IntSort())
            es = at.fork()
            es.no_type_facts = True
            es.pc = []
            val = self.eval_spec(es, ltext, dict(at.locals, **{lparam: _vint(jv)}), fi, old=st.old)
            body_ = fn(jv) == self.to_z(es, val)
            st.assume(z3.ForAll([jv], z3.And(es.pc + [body_]) if es.pc else body_))
            self.lets[lname] = (fn, lth)

    # ------------------------------------------------------------ feasibility
    def feasible(self, st: State, extra=None) -> bool:
        import time

        if extra is not None and z3.is_false(extra):
            return False
        if extra is not None and z3.is_true(extra) and not st.pc:
            return True
        t0 = time.time()
        s = z3.Solver()
        s.set("timeout", self.FEAS_TIMEOUT_MS)
        for a in INTERN.string_axioms():
            s.add(a)
        for c in st.pc:
            if not has_quantifier(c):
                s.add(c)
        if extra is not None:
            s.add(extra)
        r = s.check()
        self.feas_checks += 1
        self.feas_time += time.time() - t0
        return r != z3.unsat

    def branch(self, st: State, cond) -> List[Tuple[State, bool]]:
        """Fork on a z3 Bool; infeasible sides are pruned."""
        cond = z3.simplify(cond)
        if z3.is_true(cond):
            return [(st, True)]
        if z3.is_false(cond):
            return [(st, False)]
        out = []
        if self.feasible(st, cond):
            s1 = st.fork()
            s1.assume(cond)
            out.append((s1, True))
        ncond = z3.simplify(z3.Not(cond))
        if self.feasible(st, ncond):
            s2 = st.fork()
            s2.assume(ncond)
            out.append((s2, False))
        return out

    # ------------------------------------------------------------ truthiness, equality
    def truthy(self, st: State, v: Val):
        if v.tup is not None:
            return z3.BoolVal(len(v.tup) > 0)
        if v.z is None:
            return z3.BoolVal(True)
        z = v.z
        k = hint_kind(v.th)
        if k == "bool":
            return z3.simplify(V.b(z))
        if k == "int":
            return z3.simplify(V.i(z) != 0)
        if k == "str":
            return z3.simplify(slen(V.s(z)) > 0)
        if k == "None":
            return z3.BoolVal(False)
        if k == "list":
            return st.hread("$llen", V.r(z)) > 0
        if k in ("dict", "set"):
            return st.hread("$dlen", V.r(z)) > 0
        if k == "obj":
            if v.th is not None and v.th.name in ("FoundPlugin",):
                pass
            return z3.BoolVal(True)
        if v.th is not None and v.th.is_optional:
            inner = Val(z, th=v.th.strip_optional())
            return z3.And(z != NONE, self.truthy(st, inner))
        # unknown: full case analysis on the tag
        r = V.r(z)
        c = clsof(r)
        return z3.If(
            V.is_none(z), False,
            z3.If(V.is_B(z), V.b(z),
                  z3.If(V.is_I(z), V.i(z) != 0,
                        z3.If(V.is_S(z), slen(V.s(z)) > 0,
                              z3.If(V.is_T(z), tlen(V.t(z)) > 0,
                                    z3.If(V.is_R(z),
                                          z3.If(c == CLS_LIST, st.hread("$llen", r) > 0,
                                                z3.If(z3.Or(c == CLS_DICT, c == CLS_SET), st.hread("$dlen", r) > 0, True)),
                                          True))))))

    def to_z(self, st: State, v: Val):
        """Force a Val into a term of sort V (tuples get an id)."""
        if v.z is not None:
            return v.z
        if v.tup is not None:
            t = fresh("tup", z3.IntSort())
            st.assume(tlen(t) == len(v.tup))
            for k, e in enumerate(v.tup):
                st.assume(tat(t, k) == self.to_z(st, e))
            v.z = V.T(t)
            return v.z
        if v.py is not None:
            kind = v.py[0]
            if kind == "class":
                return V.X(z3.IntVal(INTERN.opaque_id("class:" + v.py[1].name)))
            if kind == "func":
                return V.X(z3.IntVal(INTERN.opaque_id("func:" + v.py[1].key)))
            if kind == "bound":
                # a bound method stored as a value: opaque, one id per (function, receiver)
                f = z3.Function("bound_" + v.py[2].name, z3.IntSort(), z3.IntSort())
                return V.X(f(V.r(self.to_z(st, v.py[1]))))
            if kind in ("modattr", "builtin", "module"):
                return V.X(z3.IntVal(INTERN.opaque_id(f"{kind}:{v.py[1]}")))
            if kind == "exc":
                e: ExcVal = v.py[1]
                if "$ref" not in e.fields:
                    e.fields["$ref"] = Val(V.R(st.new_ref()))
                return e.fields["$ref"].z
            if kind == "lambda":
                return V.X(z3.IntVal(INTERN.opaque_id(f"lambda:{id(v.py[1])}")))
        raise Unsupported(f"cannot reify value {v}")

    def py_eq(self, st: State, a: Val, b: Val):
        """z3 Bool for Python `a == b` (see sym.py for the approximation on strings/tuples)."""
        if a.tup is not None and b.tup is not None:
            if len(a.tup) != len(b.tup):
                return z3.BoolVal(False)
            return z3.And([self.py_eq(st, x, y) for x, y in zip(a.tup, b.tup)]) if a.tup else z3.BoolVal(True)
        if a.tup is not None or b.tup is not None:
            t, o = (a, b) if a.tup is not None else (b, a)
            oz = self.to_z(st, o)
            parts = [V.is_T(oz), tlen(V.t(oz)) == len(t.tup)]
            for k, e in enumerate(t.tup):
                parts.append(self.py_eq(st, Val(tat(V.t(oz), k), th=e.th), e))
            return z3.And(parts)
        if a.z is None and b.z is None and a.py is not None and b.py is not None:
            return z3.BoolVal(a.py[1] is b.py[1] or a.py[1] == b.py[1])
        az, bz = self.to_z(st, a), self.to_z(st, b)
        return az == bz

    def str_pointwise_eq(self, a_sid, b_sid):
        k = fresh("k", z3.IntSort())
        return z3.And(slen(a_sid) == slen(b_sid),
                      z3.ForAll([k], z3.Implies(z3.And(0 <= k, k < slen(a_sid)), sat(a_sid, k) == sat(b_sid, k))))

    # ------------------------------------------------------------ types
    def type_formula(self, st: State, z, th: Optional[TH], depth: int = 0):
        if th is None:
            return z3.BoolVal(True)
        k = hint_kind(th)
        if k == "int":
            return V.is_I(z)
        if k == "bool":
            return V.is_B(z)
        if k == "str":
            from .sym import str_canonical

            return z3.And(V.is_S(z), slen(V.s(z)) >= 0, str_canonical(V.s(z)))
        if k == "None":
            return z == NONE
        if th.name == "Optional":
            return z3.Or(z == NONE, self.type_formula(st, z, th.args[0] if th.args else None, depth))
        if k == "list":
            r = V.r(z)
            return z3.And([V.is_R(z), r >= 0, r < st.alloc_bound(), clsof(r) == CLS_LIST, st.hread("$llen", r) >= 0] + self.elem_tag(r, th))
        if k in ("dict", "set"):
            r = V.r(z)
            return z3.And([V.is_R(z), r >= 0, r < st.alloc_bound(), clsof(r) == (CLS_DICT if k == "dict" else CLS_SET),
                           st.hread("$dlen", r) >= 0] + self.elem_tag(r, th))
        if k == "tuple":
            if th.args and not (len(th.args) == 2 and th.args[1].name == "Ellipsis") and depth < 3:
                t = V.t(z)
                parts = [V.is_T(z), tlen(t) == len(th.args)]
                for i, a in enumerate(th.args):
                    parts.append(self.type_formula(st, tat(t, i), a, depth + 1))
                return z3.And(parts)
            return V.is_T(z)
        if k == "obj":
            if self.is_enum(st, th.name):
                return V.is_E(z)
            r = V.r(z)
            return z3.And(V.is_R(z), r >= 0, r < st.alloc_bound())
        return z3.BoolVal(True)

    def elem_tag(self, r, th: TH):
        """Typed separation: containers whose declared element types differ are different objects (list/dict/set are
        invariant in their element type under the repository's strict mypy configuration)."""
        if not th.args or any(self._has_any(a) for a in th.args):
            return []
        etag = z3.Function("etag", z3.IntSort(), z3.IntSort())
        return [etag(r) == INTERN.class_id("elem:" + ",".join(repr(a) for a in th.args))]

    def _has_any(self, th: TH) -> bool:
        if th.name in ("Any", "object", "Union", "Callable", "TypeVar"):
            return True
        return any(self._has_any(a) for a in th.args)

    def is_enum(self, st: State, name: str) -> bool:
        cache = self.enum_classes()
        if name in cache:
            return cache[name] is not None
        ci = front.find_class(name, st.func.module if st.func is not None else None)
        ok = ci is not None and any(b in ("Enum", "IntEnum") for b in ci.bases)
        cache[name] = ci if ok else None
        return ok

    _enum_cache: Optional[Dict[str, Any]] = None

    def enum_classes(self) -> Dict[str, Any]:
        if ExecBase._enum_cache is None:
            ExecBase._enum_cache = {}
        return ExecBase._enum_cache

    def typed(self, st: State, z, th: Optional[TH]) -> Val:
        if th is not None and not getattr(st, "no_type_facts", False):
            st.assume(z3.simplify(self.type_formula(st, z, th)))
        return Val(z, th=th)

    # ------------------------------------------------------------ class info for a value
    def class_of_val(self, st: State, v: Val) -> Optional[front.ClassInfo]:
        th = v.th.strip_optional() if v.th is not None else None
        if th is None or hint_kind(th) != "obj":
            return None
        mod = st.func.module if st.func is not None else None
        return front.find_class(th.name, mod)

    # ------------------------------------------------------------ exceptions
    def mk_exc(self, st: State, name: str, origin: str = "", implicit: bool = False, fields=None) -> Val:
        e = ExcVal(exc_id(name), fields or {}, origin, implicit)
        return Val(py=("exc", e), th=TH(name))

    def raise_out(self, st: State, name: str, node=None, implicit: bool = True) -> Out:
        line = getattr(node, "lineno", 0)
        st.note(f"raise {name} (implicit) @{line}")
        return Out("raise", st, self.mk_exc(st, name, origin=f"{self.cur_file(st)}:{line}", implicit=implicit))

    def cur_file(self, st: State) -> str:
        return st.func.module.relpath if st.func is not None else "?"
