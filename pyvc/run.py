"""
run.py -- per-property driver: verify every contract of a property, write evidence, print verdict lines.

Exit codes: 0 held / 1 VIOLATION (or more) / 2 undecided / 3 checker broken.
"""
from __future__ import annotations

import argparse
import hashlib
import json
import multiprocessing as mp
import os
import re
import sys
import time
import traceback
from typing import Any, Dict, List, Optional, Tuple

VERIF = os.path.dirname(os.path.dirname(os.path.abspath(__file__)))


def _verify_one(key: str) -> Dict[str, Any]:
    """Worker: verify one contract; returns a picklable summary."""
    import z3  # noqa: F401

    import contracts  # noqa: F401  (registers everything)
    from pyvc.spec import REGISTRY
    from pyvc.verify import verify_function
    from pyvc import replay as rp

    c = REGISTRY[key]
    t0 = time.time()
    try:
        r = verify_function(c, REGISTRY)
    except Exception as e:  # engine error
        return {"key": key, "status": "engine-error", "message": f"{type(e).__name__}: {e}\n{traceback.format_exc()[-1500:]}",
                "obligations": [], "time": time.time() - t0}
    obs = []
    for o in r.obligations:
        good = o.result in ("sat", "unsat") and ((o.result == "unsat") != o.must_be_sat)
        d = {"name": o.name, "kind": o.kind, "result": o.result, "ok": good, "info": o.info, "backend": o.backend,
             "time": round(o.time, 4), "line": o.line, "relaxed": bool(getattr(o, "relaxed", False)),
             "path": [n for n in o.st.notes if not n.startswith("call ")][-40:]}
        if not good and o.result == "sat" and not o.must_be_sat:
            kid = known_region(o, r, key)
            if kid is not None:
                d["known"] = kid
            d["model"] = rp.describe_model(o)
            d["replay"] = rp.try_replay(c, o, r)
        obs.append(d)
    bat = None
    if r.status != "ok" and key in rp.BATTERIES:
        try:
            bat = rp.BATTERIES[key]()
        except Exception as e:
            bat = {"reproduced": False, "reason": f"battery error {type(e).__name__}: {e}"}
    return {"key": key, "status": r.status, "message": r.message, "obligations": obs, "paths": r.paths, "battery": bat,
            "time_exec": round(r.time_exec, 3), "time_solve": round(r.time_solve, 3), "source_hash": r.source_hash,
            "lineno": r.lineno, "assumed": {k: v.why for k, v in r.used_assumed.items()},
            "contracts_used": sorted(r.used_contracts), "inlined": r.inlined, "feas_checks": r.feas_checks,
            "time": time.time() - t0}


def known_region(o, r, key: str) -> Optional[str]:
    """A failed obligation is a KNOWN finding only if EVERY counter-model lies inside the region recorded for it:
    the obligation is re-solved with the negation of the region; unsat => known, otherwise a different violation
    (the obligation's model is replaced by one outside the region)."""
    import z3

    from pyvc.verify import _mk_solver

    for k in load_known():
        if k.get("status") != "known" or not k.get("region") or not re.search(k["obligation"], o.name):
            continue
        try:
            fi = r.ex and __import__("pyvc.front", fromlist=["x"]).find_function(key)
            entry = o.st.old or o.st
            reg = r.ex.spec_bool(o.st, f"old({k['region']})", dict(entry.locals), fi, old=entry)
        except Exception:
            continue
        s = _mk_solver(o, 20000, True)
        s.add(z3.Not(reg))
        res = s.check()
        if res == z3.unsat:
            return k["id"]
        if res == z3.sat:
            o.model = s.model()
    return None


def load_known() -> List[Dict[str, Any]]:
    p = os.path.join(VERIF, "known_findings.json")
    if not os.path.exists(p):
        return []
    return json.load(open(p))["findings"]


def match_known(pid: str, ob: Dict[str, Any], known: List[Dict[str, Any]]) -> Optional[Dict[str, Any]]:
    for k in known:
        if k.get("status") != "known" or pid not in k.get("properties", [k.get("property")]) or k.get("region"):
            continue
        if not re.search(k["obligation"], ob["name"]):
            continue
        site = k.get("site")
        if site and not (site in ob["name"] or any(site in p for p in ob.get("path", [])) or site in json.dumps(ob.get("model", {}))):
            continue
        return k
    return None


def main(argv=None) -> int:
    ap = argparse.ArgumentParser()
    ap.add_argument("pid")
    ap.add_argument("--tier", default=os.environ.get("VERIF_TIER", "quick"))
    ap.add_argument("--replay", default=None)
    ap.add_argument("--jobs", type=int, default=min(16, os.cpu_count() or 4))
    args = ap.parse_args(argv)
    pid = args.pid
    t_start = time.time()
    if args.tier == "thorough":
        # deeper exploration: 4x solver budgets (set before the workers import pyvc.verify) ...
        os.environ.setdefault("PYVC_Z3_TIMEOUT_MS", "80000")
        os.environ.setdefault("PYVC_CVC5_TIMEOUT_S", "120")
    seed = int(os.environ.get("VERIF_SEED", "0") or 0)
    sys.path.insert(0, VERIF)
    if args.replay:
        from pyvc import replay as rp

        return rp.replay_file(args.replay)

    import contracts  # noqa: F401
    from pyvc.spec import REGISTRY
    from contracts import structural

    keys = sorted(k for k, c in REGISTRY.items() if "::" in k and not c.assumed and pid in c.properties)
    results: List[Dict[str, Any]] = []
    if keys:
        with mp.get_context("fork").Pool(min(args.jobs, len(keys))) as pool:
            results = pool.map(_verify_one, keys, chunksize=1)
    # structural obligations (frame / syntactic / table checks): run in-process
    struct = structural.run(pid, args.tier)

    known = load_known()
    n_ob = n_ok = 0
    violations: List[Tuple[str, Dict[str, Any]]] = []
    known_hits: List[Tuple[Dict[str, Any], Dict[str, Any]]] = []
    undecided: List[str] = []
    broken: List[str] = []
    by_backend: Dict[str, Dict[str, float]] = {}
    samples = []
    funcs = []
    assumed: Dict[str, str] = {}
    not_verified: List[str] = []
    covers = 0
    cover_unknown: List[str] = []
    for r in results:
        funcs.append({"key": r["key"], "line": r.get("lineno"), "source_hash": r.get("source_hash"), "paths": r.get("paths"),
                      "obligations": len(r["obligations"]), "status": r["status"], "exec_s": r.get("time_exec"),
                      "solve_s": r.get("time_solve")})
        assumed.update(r.get("assumed", {}))
        if r["status"] == "engine-error":
            broken.append(f"{r['key']}: {r['message']}")
            continue
        if r["status"] != "ok":
            not_verified.append(r["key"])
            bat = r.get("battery") or {}
            if bat.get("reproduced"):
                # the function left the verified subset, but its contract fails natively on a concrete input
                violations.append((r["key"], {"name": f"{r['key']}::post[battery]", "info": bat.get("expected"), "replay": bat,
                                             "backend": "native", "result": f"undecided by the verifier ({r['message'][:200]}); "
                                             "the contract fails on a concrete input", "path": []}))
                n_ob += 1
            else:
                undecided.append(f"{r['key']}: {r['status']} {r['message']}")
            continue
        # a failed precondition of a callee is assumed afterwards: what follows it may then be contradictory, which is a
        # consequence of the reported failure and not a vacuous contract
        pre_failed = any(o["kind"] == "pre" and not o["ok"] and o["result"] == "sat" for o in r["obligations"])
        # a loop head (or the entry) is reached on several paths; a path that the quick feasibility filter could not prune within
        # its budget may be infeasible, and its cover then fails harmlessly: the guard is violated only if NO path reaches the point
        reachable = {o["name"] for o in r["obligations"] if o["kind"] == "cover" and o["result"] != "unsat"}
        for o in r["obligations"]:
            n_ob += 1
            b = by_backend.setdefault(o["backend"] or "z3-api", {"count": 0, "seconds": 0.0})
            b["count"] += 1
            b["seconds"] += o["time"]
            if o["kind"] in ("cover", "cover_exit"):
                covers += 1
            if o["kind"] == "cover_exit" and not o["ok"]:
                n_ob -= 1   # an individually infeasible exit path is not an obligation; the function-level guard is the `cover` entry
                continue
            if o["ok"]:
                n_ok += 1
                if len(samples) < 6 and o["kind"] in ("post", "xpost", "inv", "frame", "pre"):
                    samples.append({"obligation": o["name"], "clause": o["info"][:200], "verdict": "unsat (discharged)", "backend": o["backend"]})
                continue
            if o["kind"] == "cover":
                if o["result"] == "unsat" and (pre_failed or o["name"] in reachable):
                    n_ob -= 1
                elif o["result"] == "unsat":
                    broken.append(f"vacuous: {o['name']} (the assumptions at this point are contradictory)")
                else:
                    # reachability could not be decided within the budget: the guard is inconclusive, not failed
                    n_ob -= 1
                    cover_unknown.append(o["name"])
                continue
            if o["result"] == "unknown" or o["result"] is None:
                undecided.append(f"{o['name']}: solver returned {o['result']}")
                continue
            k = next((kk for kk in known if kk["id"] == o.get("known") and pid in kk.get("properties", [])), None) if o.get("known") else match_known(pid, o, known)
            if k is not None:
                known_hits.append((k, o))
            else:
                violations.append((r["key"], o))
    for s in struct:
        n_ob += 1
        b = by_backend.setdefault(s.get("backend", "structural"), {"count": 0, "seconds": 0.0})
        b["count"] += 1
        b["seconds"] += s.get("time", 0.0)
        if s["ok"]:
            n_ok += 1
            if len(samples) < 9:
                samples.append({"obligation": s["name"], "clause": s["info"][:200], "verdict": "holds", "backend": s.get("backend", "structural")})
        elif s.get("undecided"):
            undecided.append(f"{s['name']}: {s.get('detail', '')}")
        else:
            k = match_known(pid, s, known)
            if k is not None:
                known_hits.append((k, s))
            else:
                violations.append(("structural", s))

    # ... and, in the thorough tier, the guard of the guard: every canary mutation of this property (a scratch copy of /repo
    # with one seeded defect) must be reported as a VIOLATION by this very check; a survivor means the check proves too much
    canary_report = None
    if args.tier == "thorough" and not os.environ.get("PYVC_NO_CANARIES"):
        import subprocess

        cp = subprocess.run([sys.executable, os.path.join(VERIF, "tools", "canaries.py"), pid], capture_output=True, text=True,
                            env=dict(os.environ, PYVC_NO_CANARIES="1", VERIF_TIER="quick"))
        lines = [l for l in cp.stdout.splitlines() if l.startswith("canary ")]
        survivors = [l for l in lines if ": killed" not in l]
        canary_report = {"run": len(lines), "killed": len(lines) - len(survivors), "survivors": survivors}
        for l in survivors:
            broken.append(f"canary not detected: {l[:300]}")
        n_ob += len(lines)
        n_ok += len(lines) - len(survivors)
        by_backend.setdefault("canary", {"count": 0, "seconds": 0.0})["count"] += len(lines)

    crosscheck_report = None
    if args.tier == "thorough" and pid in ("C05", "C11") and not os.environ.get("PYVC_NO_CANARIES"):
        # CPython cross-check of the proved pure contracts (a guard of the encoding, never counted as proof)
        import subprocess

        cc = subprocess.run([sys.executable, os.path.join(VERIF, "tools", "crosscheck.py"), "4000"], capture_output=True, text=True)
        crosscheck_report = (cc.stdout.strip().splitlines() or ["no output"])[-1]
        if cc.returncode != 0:
            broken.append("CPython cross-check of the pure contracts failed: " + cc.stdout[-600:])

    # ---------------------------------------------------------------- report
    REPLAYS = os.environ.get("PYVC_REPLAY_DIR", os.path.join(VERIF, "replays"))
    EVID = os.environ.get("PYVC_EVIDENCE_DIR", os.path.join(VERIF, "evidence"))
    os.makedirs(os.path.join(REPLAYS, pid), exist_ok=True)
    printed = set()
    for k, o in known_hits:
        if k["id"] in printed:
            continue
        printed.add(k["id"])
        names = [oo["name"].split("::", 2)[-1] for kk, oo in known_hits if kk["id"] == k["id"]]
        print(f"KNOWN-FINDING: property={pid} {k['id']}: {k['what']} [obligations: {', '.join(names)}]")
    seen_known = set()
    for key, o in violations:
        fn = re.sub(r"[^A-Za-z0-9_.-]+", "_", o["name"])[-150:]
        path = os.path.join(REPLAYS, pid, fn + ".json")
        rep = o.get("replay") or {}
        json.dump({"property": pid, "obligation": o["name"], "clause": o.get("info"), "function": key, "path": o.get("path"),
                   "solver_model": o.get("model"), "native_replay": rep, "detail": o.get("detail"),
                   "solver_output": f"{o.get('backend', '')}: {o.get('result', 'fails')}"}, open(path, "w"), indent=1, default=str)
        suffix = "" if rep.get("reproduced") else " no-failing-input-found"
        print(f"VIOLATION property={pid} replay={path}{suffix}")
    for u in undecided[:20]:
        print(f"UNDECIDED property={pid} {u[:400]}")
    for b_ in broken[:20]:
        print(f"CHECKER-BROKEN property={pid} {b_[:600]}")
    if n_ob == 0:
        broken.append("zero obligations")
        print(f"CHECKER-BROKEN property={pid} zero obligations generated")

    wall = time.time() - t_start
    n_known = len(known_hits)
    evidence = {
        "property_id": pid, "tier": "thorough" if args.tier == "thorough" else "quick", "seed": seed, "level": "proof",
        "coverage": {
            "obligations": n_ob - len(known_hits), "discharged": n_ok, "known_finding_obligations": len(known_hits),
            "checker_cmd": f"./check {pid} --tier {args.tier}",
            "trusted_base": ["pyvc encoding of the Python subset (DESIGN.md 3; cross-checked by canaries)", "z3 4.x / cvc5 1.0",
                             "CPython 3.12", "assumed contracts listed under 'assumptions'",
                             "type annotations of /repo hold at run time (mypy-clean)",
                             "logging calls (POGGER/LOGGER) are pure and total"],
            "functions_under_contract": funcs, "by_backend": by_backend, "covers": covers,
            "not_verified": not_verified, "samples": samples, "known_findings_matched": [k["id"] for k, _ in known_hits],
            "failed_obligations": [o["name"] for _, o in violations], "undecided": undecided[:50],
            "structural_obligations": len(struct), "covers_undecided": cover_unknown, "canaries": canary_report, "cpython_crosscheck": crosscheck_report,
        },
        "assumptions": sorted(f"{k}: {v}" for k, v in assumed.items()) + structural.assumptions(pid),
        "wall_s": round(wall, 2), "violations": len(violations),
    }
    os.makedirs(EVID, exist_ok=True)
    json.dump(evidence, open(os.path.join(EVID, f"{pid}.json"), "w"), indent=1, default=str)
    print(f"{pid}: obligations={n_ob} discharged={n_ok} known={n_known} violations={len(violations)} undecided={len(undecided)} "
          f"functions={len(keys)} wall={wall:.1f}s")
    if broken:
        return 3
    if violations:
        return 1
    if undecided:
        return 2
    return 0


if __name__ == "__main__":
    sys.exit(main())
