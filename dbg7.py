import sys, traceback
sys.path.insert(0, '/verif')
import contracts, z3
from pyvc.spec import REGISTRY
import pyvc.state as S
oh = S.State.hwrite; ov = S.State.havoc_field
def hw(self, f, r, v, guard=None):
    if f == '$llen' and self.written is not None:
        print("HWRITE", r); traceback.print_stack(limit=6)
    return oh(self, f, r, v, guard)
def hv(self, f):
    if f == '$llen' and self.written is not None:
        print("HAVOC"); traceback.print_stack(limit=6)
    return ov(self, f)
S.State.hwrite = hw; S.State.havoc_field = hv
from pyvc.verify import verify_function
k=[kk for kk in REGISTRY if sys.argv[1] in kk][0]
r = verify_function(REGISTRY[k], REGISTRY)
