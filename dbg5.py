import sys, time
sys.path.insert(0, '/verif')
import contracts, z3
from pyvc.spec import REGISTRY
from pyvc.verify import verify_function
from pyvc.sym import INTERN
import pyvc.verify as pv
pv.solve = lambda ob: None
k=[kk for kk in REGISTRY if sys.argv[1] in kk][0]
r = verify_function(REGISTRY[k], REGISTRY)
for o in r.obligations:
    if sys.argv[2] in o.name:
        for cfg in [{}, {"smt.mbqi": False}, {"smt.auto_config": False, "smt.mbqi": False}]:
            s=z3.Solver(); s.set("timeout", 20000)
            for kk,v in cfg.items(): s.set(kk, v)
            for a in INTERN.string_axioms(): s.add(a)
            for p in o.pc: s.add(p)
            s.add(z3.Not(o.goal))
            t=time.time(); res=s.check(); print(cfg, res, round(time.time()-t,2))
        open('/tmp/q.smt2','w').write("(set-logic ALL)\n"+s.to_smt2())
        break
