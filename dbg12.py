import sys, time
sys.path.insert(0, '/verif')
import contracts, z3
from pyvc.spec import REGISTRY
from pyvc.verify import verify_function
from pyvc.sym import INTERN
k=[kk for kk in REGISTRY if sys.argv[1] in kk][0]
r = verify_function(REGISTRY[k], REGISTRY)
for o in r.obligations:
    if sys.argv[2] in o.name and o.result=='unsat':
        s=z3.Solver(); s.set('timeout', 20000); s.set(unsat_core=True); s.set("smt.mbqi", False)
        for a in INTERN.string_axioms(): s.add(a)
        for i,p in enumerate(o.pc): s.assert_and_track(p, f"p{i}")
        res=s.check(); print('pc alone:', res)
        if res==z3.unsat:
            for c in s.unsat_core(): print(c, str(o.pc[int(str(c)[1:])])[:600].replace('\n',' '))
        break
