import sys, time
sys.path.insert(0, '/verif')
import contracts, z3
from pyvc.spec import REGISTRY
from pyvc.verify import verify_function
k=[kk for kk in REGISTRY if sys.argv[1] in kk][0]
r = verify_function(REGISTRY[k], REGISTRY)
for o in sorted(r.obligations, key=lambda o: -o.time)[:8]:
    print(round(o.time,2), o.result, o.backend, o.name[-60:])
