import sys, time
sys.path.insert(0, '/verif')
import contracts, z3
from pyvc.spec import REGISTRY
from pyvc.verify import verify_function
from pyvc.exec import has_quantifier
from pyvc.sym import INTERN
k=[kk for kk in REGISTRY if sys.argv[1] in kk][0]
r = verify_function(REGISTRY[k], REGISTRY)
for o in r.obligations:
    if 'cover.loop' in o.name:
        print(o.result, o.backend, o.time)
        s=z3.Solver(); s.set('timeout',10000)
        for a in INTERN.string_axioms(): s.add(a)
        n=0
        for p in o.pc:
            if not has_quantifier(p): s.add(p); n+=1
        t=time.time(); print(s.check(), s.reason_unknown(), n, len(o.pc), time.time()-t)
