import sys
sys.path.insert(0, '/verif')
import contracts, z3
from pyvc.spec import REGISTRY
from pyvc.verify import verify_function
k=[kk for kk in REGISTRY if sys.argv[1] in kk][0]
r = verify_function(REGISTRY[k], REGISTRY)
for o in r.obligations:
    if sys.argv[2] in o.name:
        for i,p in enumerate(o.pc): print(i, str(p)[:int(sys.argv[3]) if len(sys.argv)>3 else 300].replace('\n',' '))
        print('GOAL', o.goal)
        break
