import sys
sys.path.insert(0, '/verif')
import contracts, z3
from pyvc.spec import REGISTRY
from pyvc.verify import verify_function
k=[kk for kk in REGISTRY if sys.argv[1] in kk][0]
r = verify_function(REGISTRY[k], REGISTRY)
for o in r.obligations:
    if 'cover.loop' in o.name:
        for i,p in enumerate(o.pc): print(i, str(p)[:300].replace('\n',' '))
        print(o.st.ghost, o.st.locals.get('file_as_lines'))
