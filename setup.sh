#!/bin/sh
# Build the overlay interpreter offline: python 3.12 venv + solver wheels from the wheelhouse,
# plus a .pth that exposes /venv's site-packages (the repository's own third-party deps).
set -e
cd "$(dirname "$0")"
if [ -x .venv/bin/python ] && .venv/bin/python -c "import z3, jsonschema" 2>/dev/null; then
  echo "setup: .venv already usable"; exit 0
fi
rm -rf .venv
PY=/root/.pyenv/versions/3.12.1/bin/python
[ -x "$PY" ] || PY=/venv/bin/python
"$PY" -m venv .venv
PIP_NO_INDEX=1 .venv/bin/pip install -q --no-index --find-links /opt/veriftools/wheels z3-solver jsonschema crosshair-tool icontract deal
echo "import site; site.addsitedir('/venv/lib/python3.12/site-packages')" > .venv/lib/python3.12/site-packages/repo_deps.pth
.venv/bin/python -c "import z3, jsonschema; print('setup: ok, z3', z3.get_version_string())"
